#!/usr/bin/env python3
# Regenerates /verif/seeded/README.md from the meta.json files.
import json, os
root = '/verif/seeded'
head = open(os.path.join(root, 'README.md')).read().split('| id | property |')[0]
rows = []
for d in sorted(os.listdir(root)):
    mp = os.path.join(root, d, 'meta.json')
    if not os.path.exists(mp):
        continue
    m = json.load(open(mp))
    change = ' '.join(m.get('summary', '').split())[:300].replace('|', '/')
    checks = '; '.join('%s: %s' % (k, ' '.join(str(v).split())) for k, v in m.get('detected_by', {}).items()).replace('|', '/')
    rows.append('| %s | %s | %s | %s |' % (d, m.get('property', d[:3]), change, checks))
open(os.path.join(root, 'README.md'), 'w').write(head + '| id | property | change | checks |\n|---|---|---|---|\n' + '\n'.join(rows) + '\n')
print(len(rows), 'seeds')
