#!/bin/bash
pid=$1; demo=$2; dest=$3; run=$4; shift 4
out=/tmp/seedout16-$pid
echo "--- confirm"; /verif/tools/seed_confirm.sh $out/patch.diff $out/$demo $dest "$run"
echo "--- checks"; /verif/tools/mutant.sh $out/patch.diff $pid "$@"
