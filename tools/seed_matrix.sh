#!/bin/bash
# usage: tools/seed_matrix.sh [seed ids...]  — re-runs every stored seeded change against its own property's quick
# check (scratch worktree, VERIF_REPO) and reports whether it is still detected. One line per seed.
cd "$(dirname "$0")/.."
# the matrix runs for hours: it works from a snapshot of the machinery so that edits made meanwhile do not leak in
snap=$(mktemp -d /tmp/verif-snap-XXXXXX)
rsync -a --exclude .git --exclude evidence --exclude out --exclude work ./ $snap/
export VERIF_HOME=$snap
trap 'rm -rf $snap' EXIT
ids=${@:-$(ls seeded | grep -v README)}
for sid in $ids; do
  pid=${sid%%-*}
  out=$($snap/tools/mutant.sh $snap/seeded/$sid/patch.diff $pid 2>&1)
  suite=$(echo "$out" | grep -m1 '^suite:')
  line=$(echo "$out" | grep -m1 "^== $pid")
  case "$line" in
    *"exit=1"*) echo "$sid DETECTED ($suite) $(echo "$line" | cut -c1-160)";;
    *) echo "$sid NOT-DETECTED ($suite) $(echo "$out" | tail -3 | tr '\n' ' ' | cut -c1-300)";;
  esac
done
