#!/bin/bash
pid=$1; sid=$2; demo=$3; shift 3
out=/tmp/seedout17-$pid
rm -f $out/gts $out/gts.orig
/verif/tools/seed_keep.sh $pid $sid $out >/dev/null
/verif/tools/seed_record.py $pid $sid "$demo" "$@"
git -C /repo worktree remove --force /tmp/seed17-$pid 2>/dev/null; rm -rf $out
