#!/bin/bash
# usage: seed_keep.sh <Cxx> <seed-id> <outdir> -- copies a confirmed seeded change into /verif/seeded/<seed-id>/
pid=$1; sid=$2; out=$3
mkdir -p /verif/seeded/$sid
cp $out/patch.diff /verif/seeded/$sid/patch.diff
for f in $out/*; do case "$f" in */patch.diff|*/gts|*/meta.json) ;; *) [ -f "$f" ] && [ $(stat -c %s "$f") -lt 200000 ] && cp "$f" /verif/seeded/$sid/ ;; esac; done
cp $out/meta.json /verif/seeded/$sid/agent_meta.json 2>/dev/null
echo kept /verif/seeded/$sid; ls /verif/seeded/$sid
