#!/bin/bash
# usage: seed17_process.sh <Cxx> [extra checks...] -- confirm an agent's delivery (round 17) and run the checks against it
pid=$1; shift; out=/tmp/seedout17-$pid
pkg=$(jq -r .demo_pkg $out/meta.json); cmd=$(jq -r .demo_cmd $out/meta.json)
demo=$(ls $out/*_test.go | head -1)
/verif/tools/seed_confirm.sh $out/patch.diff $demo $pkg/$(basename $demo) "$cmd"
for c in $pid "$@"; do echo "--- $c"; /verif/tools/mutant.sh $out/patch.diff $c 2>&1 | tail -4; done
