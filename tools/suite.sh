#!/bin/bash
# Runs the repository's own test suite offline in the given directory (default /repo); prints pass/fail counts.
dir=${1:-/repo}
cd "$dir" || exit 2
export GOFLAGS=-mod=mod GOPROXY=off GOSUMDB=off GOTOOLCHAIN=local
out=$(go test -vet=off -count=1 -json ./... 2>&1)
pass=$(echo "$out" | grep -c '"Action":"pass","Package":"[^"]*","Test"')
fail=$(echo "$out" | grep -c '"Action":"fail","Package":"[^"]*","Test"')
echo "suite: pass=$pass fail=$fail"
if [ "$fail" != "0" ] || [ "$pass" -lt 128 ]; then
  echo "$out" | grep '"Action":"fail"' | head -20
  echo "$out" | grep -i '"Output".*\(panic\|build failed\|cannot\|undefined\)' | head -10
  exit 1
fi
git -C "$dir" status --porcelain -- go.mod go.sum
exit 0
