#!/usr/bin/env python3
"""Operator-level mutation sweep (development aid, not a registered check).
usage: tools/opmutate.py <n> <seed> [file ...]
Draws n single-token mutations (comparison and arithmetic operators, && / ||, +1 / -1, true / false) in the given
non-test sources of /repo, applies each in a scratch worktree, runs the repository's own suite and - if the suite
still passes - the quick checks mapped to that file. Prints one line per mutant: killed-by-suite, DETECTED <checks>,
or SURVIVED. Scratch worktrees are removed."""
import os, random, re, subprocess, sys, tempfile
MAP = {
 'location.go': ['C06','C02','C03','C04','C05','C10','C19'], 'sequence.go': ['C02','C03','C04','C05','C10','C11'],
 'feature.go': ['C12','C19','C11'], 'region.go': ['C09','C08','C15'], 'locator.go': ['C08','C15'], 'modifier.go': ['C08'],
 'nucleotide.go': ['C18','C05'], 'props.go': ['C11','C01'], 'seqio/origin.go': ['C16','C01'], 'seqio/fasta.go': ['C17','C07'],
 'seqio/genbank.go': ['C01','C03','C07'], 'seqio/genbank_subparsers.go': ['C07','C16','C01'], 'seqio/insdc.go': ['C01','C07'],
 'seqio/scanner.go': ['C07','C17'], 'utils.go': ['C03','C04','C08'], 'cmd/gts/insert.go': ['C15','C14'], 'cmd/gts/delete.go': ['C15','C14'], 'cmd/gts/infix.go': ['C15'], 'cmd/gts/extract.go': ['C15','C14'],
 'cmd/gts/select.go': ['C19','C14'], 'cmd/gts/repair.go': ['C12','C14'], 'cmd/gts/rotate.go': ['C15','C14'], 'cmd/gts/split.go': ['C15','C12'], 'cmd/gts/io.go': ['C14','C15'], 'cmd/gts/search.go': ['C15','C14'], 'cmd/gts/join.go': ['C12','C14'], 'cmd/cache/file.go': ['C13','C14'], 'cmd/cache/header.go': ['C13'],
}
SWAPS = [(r' < ', ' <= '), (r' <= ', ' < '), (r' > ', ' >= '), (r' >= ', ' > '), (r' == ', ' != '), (r' != ', ' == '), (r' && ', ' || '), (r' \|\| ', ' && '),
         (r' \+ 1\b', ' - 1'), (r' - 1\b', ' + 1'), (r' \+ ', ' - '), (r' - ', ' + '), (r'\btrue\b', 'false'), (r'\bfalse\b', 'true'), (r'\+\+', '--'), (r'\[1\]', '[0]'), (r'\[0\]', '[1]')]
env = dict(os.environ, GOFLAGS='-mod=mod', GOPROXY='off', GOSUMDB='off', GOTOOLCHAIN='local')
def sh(cmd, **kw):
    return subprocess.run(cmd, shell=True, capture_output=True, text=True, env=env, **kw)
n, seed = int(sys.argv[1]), int(sys.argv[2])
files = sys.argv[3:] or list(MAP)
rng = random.Random(seed)
cands = []
for f in files:
    src = open('/repo/' + f).read().split('\n')
    for i, line in enumerate(src):
        if line.strip().startswith('//') or 'import' in line:
            continue
        for pat, rep in SWAPS:
            for m in re.finditer(pat, line):
                cands.append((f, i, m.start(), m.end(), rep, line))
rng.shuffle(cands)
done = 0
for f, i, a, b, rep, line in cands:
    if done >= n:
        break
    d = tempfile.mkdtemp(prefix='opm-', dir='/tmp'); os.rmdir(d)
    if sh(f'git -C /repo worktree add -q --detach {d} HEAD').returncode:
        continue
    try:
        src = open(f'{d}/{f}').read().split('\n')
        src[i] = line[:a] + rep + line[b:]
        open(f'{d}/{f}', 'w').write('\n'.join(src))
        if sh('go build ./...', cwd=d).returncode:
            continue
        done += 1
        tag = f'{f}:{i+1} {line.strip()[:70]!r} -> {rep.strip()!r}'
        if sh('go test -vet=off -count=1 ./...', cwd=d).returncode:
            print('killed-by-suite', tag, flush=True); continue
        hit = []
        os.makedirs(d + '.tmp', exist_ok=True)
        for chk in MAP[f]:
            r = sh(f'VERIF_REPO={d} TMPDIR={d}.tmp /verif/check {chk} quick', cwd='/verif')
            if r.returncode == 1:
                hit.append(chk); break
            if r.returncode == 2:
                hit.append(chk + '(exit 2)')
        print(('DETECTED ' + ','.join(hit)) if hit else 'SURVIVED', tag, flush=True)
    finally:
        sh(f'git -C /repo worktree remove --force {d}'); sh(f'rm -rf {d} {d}.tmp')
