#!/bin/bash
# usage: seed_confirm.sh <patch.diff> <demo-file> <dest-relative-path> <run command...>
# Confirms in a scratch worktree of /repo HEAD: suite passes with the change; demo passes without it and fails with it.
patch=$1; demo=$2; dest=$3; shift 3
export GOFLAGS=-mod=mod GOPROXY=off GOSUMDB=off GOTOOLCHAIN=local
d=$(mktemp -d /tmp/conf-XXXXXX); rmdir $d
git -C /repo worktree add -q --detach $d HEAD || exit 2
trap 'git -C /repo worktree remove --force $d >/dev/null 2>&1; rm -rf $d' EXIT
mkdir -p $(dirname $d/$dest); cp $demo $d/$dest
(cd $d && eval "$@" >/tmp/conf.out 2>&1); r0=$?
git -C $d apply $patch || { echo "patch does not apply"; exit 2; }
(cd $d && eval "$@" >/tmp/conf.out2 2>&1); r1=$?
rm -f $d/$dest
s=$(/verif/tools/suite.sh $d | head -1)
echo "demo without change: exit=$r0 ; with change: exit=$r1 ; $s"
[ $r0 = 0 ] && [ $r1 != 0 ] && echo CONFIRMED || { echo NOT-CONFIRMED; tail -5 /tmp/conf.out; tail -5 /tmp/conf.out2; }
