#!/usr/bin/env python3
"""usage: seed_record.py <Cxx> <seed-id> <demo cmd> <check=result>...   (after seed_keep.sh)"""
import json, sys, os
pid, sid, demo = sys.argv[1:4]
d = "/verif/seeded/%s" % sid
a = {}
try:
    a = json.load(open(os.path.join(d, "agent_meta.json")))
except Exception:
    pass
det = {}
for kv in sys.argv[4:]:
    k, v = kv.split("=", 1)
    det[k] = v
m = {"property": pid, "summary": a.get("summary"), "needs": a.get("needs"),
     "confirmed": "tools/seed_confirm.sh in a scratch worktree of /repo HEAD: existing suite 128/128 with the change; demonstration (%s) passes on HEAD and fails with the change" % demo,
     "detected_by": det, "ran": "tools/mutant.sh seeded/%s/patch.diff <checks> (scratch worktree, VERIF_REPO), worktree removed afterwards" % sid}
json.dump(m, open(os.path.join(d, "meta.json"), "w"), indent=1)
print("recorded", sid)
