#!/bin/bash
# usage: tools/all.sh quick|thorough [ids...]  — runs the checks one after another, prints one line per check
tier=${1:-quick}; shift
ids=${@:-C01 C02 C03 C04 C05 C06 C07 C08 C09 C10 C11 C12 C13 C14 C15 C16 C17 C18 C19}
cd "$(dirname "$0")/.."
for p in $ids; do
  start=$(date +%s)
  out=$(./check $p $tier 2>&1); rc=$?
  echo "== $p $tier exit=$rc $(( $(date +%s) - start ))s :: $(echo "$out" | grep -v '^KNOWN-FINDING' | tail -2 | tr '\n' ' ' | cut -c1-400)"
  echo "$out" | grep -c '^KNOWN-FINDING' | sed 's/^/   known-finding lines: /'
done
