#!/bin/bash
# usage: seed_process.sh <Cxx> <seed-id> <demo-file-name> <dest-rel-path> "<run command>" [extra checks...]
pid=$1; sid=$2; demo=$3; dest=$4; run=$5; shift 5
out=/tmp/seedout-$pid
echo "--- confirm"; /verif/tools/seed_confirm.sh $out/patch.diff $out/$demo $dest "$run"
echo "--- checks"; /verif/tools/mutant.sh $out/patch.diff $pid "$@"
