#!/bin/bash
# usage: mutant.sh <patch-or-sed-script.sh> <Cxx> [more Cxx...]
# Applies a change to a scratch worktree of /repo, runs the repo suite there, then the quick checks with VERIF_REPO.
set -u
V=${VERIF_HOME:-/verif}   # where the machinery lives (a snapshot when VERIF_HOME is set)
patch=$1; shift
d=$(mktemp -d /tmp/mut-XXXXXX); rmdir $d
git -C /repo worktree add -q --detach $d HEAD || exit 2
export TMPDIR=$d.tmp; mkdir -p $TMPDIR   # scratch replay files and work dirs of this run only
trap 'git -C /repo worktree remove --force $d >/dev/null 2>&1; rm -rf $d $d.tmp' EXIT
case "$patch" in
  *.sh) (cd $d && bash "$patch") || { echo "mutation script failed"; exit 2; } ;;
  *) git -C $d apply "$patch" || { echo "patch does not apply"; exit 2; } ;;
esac
git -C $d diff --stat | tail -1
$V/tools/suite.sh $d | head -3
for p in "$@"; do
  VERIF_REPO=$d $V/check $p quick > $d.out 2>&1; rc=$?
  echo "== $p exit=$rc: $(grep -m1 -A1 VIOLATION $d.out | tr '\n' ' ' | cut -c1-300)"
  [ $rc = 2 ] && tail -5 $d.out
  rm -f $d.out
done
