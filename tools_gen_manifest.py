#!/usr/bin/env python3
"""Regenerates MANIFEST.json from the table below (kept in one place so it always validates)."""
import json, os
HERE = os.path.dirname(os.path.abspath(__file__))
ALL = ["C%02d" % i for i in range(1, 20)]
CHECKS = {
 "C09": dict(technique="property-based testing (rapid) + exhaustive small-space enumeration against a coverage-bitmap oracle",
             level="exploration",
             text="Generated region collections (rapid, boundary-biased) plus complete enumeration of all <=3-segment collections over n<=4/5 are compared with an independent coverage bitmap: Minimize is checked for orientation, strict order, non-abutment and exact cover in both directions, InvertLinear for exact partition, InvertCircular for equal cover and origin merge, and all for permutation/orientation invariance. Exploration is the right level: the functions are pure and cheap, so millions of cases and an exhaustive small space are affordable, but the space is unbounded.",
             note="Trusted: the harness's bitmap oracle, rapid, the Go toolchain. A zero-length input segment exactly at 0 or n leaves the circular-merge clause unasserted (statement silent).",
             design="§3 C09"),
}
PENDING_REASON = "check not built yet in this session (see DESIGN.md §3a build order); property-based testing applies and a check is planned"
def main():
    checks = []
    for pid in ALL:
        if pid not in CHECKS: continue
        c = CHECKS[pid]
        checks.append(dict(property_id=pid, quick_cmd="./check %s quick" % pid, thorough_cmd="./check %s thorough" % pid,
            evidence_file="evidence/%s.json" % pid, replay_cmd_template="./check %s --replay {path}" % pid,
            engine="harness", level_claimed=dict(category=c["level"], text=c["text"], design_ref=c["design"]),
            level_note=c["note"], technique=c["technique"]))
    m = dict(version=1,
        setup_cmd="./check --setup",
        hooks=dict(guard="verif", enable="checks build /repo through the harness module's replace directive with `-tags verif`; no guarded source hooks exist (all observation points are public API or the built binary)",
                   baseline_off_cmd="cd /repo && go test -vet=off -count=1 ./...", source_commits=[], add_only=True),
        engines=[dict(name="harness", path="harness/", serves_properties=[c["property_id"] for c in checks],
                      kind_free_text="Go test binary: pgregory.net/rapid generators + enumerators + native go fuzz targets, explicit oracles (reference model, round trip, differential), driven by ./check")],
        checks=checks,
        notes="All checks are generated-input searches against explicit oracles (property-based testing / fuzzing). See DESIGN.md.",
        not_applicable=[dict(property_id=p, reason=PENDING_REASON) for p in ALL if p not in CHECKS])
    json.dump(m, open(os.path.join(HERE, "MANIFEST.json"), "w"), indent=1)
main()
