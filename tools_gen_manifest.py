#!/usr/bin/env python3
"""Regenerates MANIFEST.json from the table below (kept in one place so it always validates)."""
import json, os
HERE = os.path.dirname(os.path.abspath(__file__))
ALL = ["C%02d" % i for i in range(1, 20)]
CHECKS = {
 "C09": dict(technique="property-based testing (rapid) + exhaustive small-space enumeration against a coverage-bitmap oracle",
             level="exploration",
             text="Generated region collections (rapid, boundary-biased) plus complete enumeration of all <=3-segment collections over n<=4/5 are compared with an independent coverage bitmap: Minimize is checked for orientation, strict order, non-abutment and exact cover in both directions, InvertLinear for exact partition, InvertCircular for equal cover and origin merge, and all for permutation/orientation invariance. Exploration is the right level: the functions are pure and cheap, so millions of cases and an exhaustive small space are affordable, but the space is unbounded.",
             note="Trusted: the harness's bitmap oracle, rapid, the Go toolchain. A zero-length input segment exactly at 0 or n leaves the circular-merge clause unasserted (statement silent).",
             design="§3 C09"),
 "C02": dict(technique="property-based testing (rapid, boundary-biased generators) + exhaustive small-space enumeration against a reference position-map model",
             level="exploration",
             text="Every generated (host, guest, index, table) is run through Insert and Embed and compared with an independent model: byte splice, per-label presence/key/qualifiers, denotation (ordered stranded residue list) equal to the position-mapped original, outer partial markers mapped, guest features shifted, all coordinates in bounds. All single-leaf and two-part locations over small L are enumerated completely.",
             note="Trusted: the harness model (own AST/denotation, no gts coordinate code), rapid, Go. Sites inside residue-bearing features and junction markers are not compared.",
             design="§3 C02"),
 "C04": dict(technique="property-based testing (rapid) + exhaustive small-space enumeration; model oracle plus metamorphic laws (additive, identity, inverse)",
             level="exploration",
             text="Rotate is compared with the modular position map on bytes, denotations, markers and site positions, and the composition laws are checked gts-against-gts and against the model's identity rotation, for generated tables and exhaustively for all one/two-part locations over small L and all n in [-2L,2L].",
             note="Trusted: harness model, rapid, Go. Whole-circle parts compared as full-length; origin-junction markers treated as interior.",
             design="§3 C04"),
 "C05": dict(technique="property-based testing (rapid) + exhaustive arity sweep; mirror model, involution laws, extraction differential across reverse-complement",
             level="exploration",
             text="Reverse/Complement are compared with a mirror model (positions, part order, marker sides, sites), involutions are checked on bytes and denotations, and for every feature the bytes gts extracts from the original and from the reverse-complemented record are compared with each other and with the model's extraction. Every join/order arity 1..6 is swept completely.",
             note="Trusted: harness model and IUPAC table, rapid, Go. Open known findings: Between.Reverse off by one (pinned by the suite), join(range,point-at-end) drops the point (pinned).",
             design="§3 C05"),
 "C03": dict(technique="property-based testing (rapid) + exhaustive small-space enumeration against a reference position-map model with an explicit cut-end rule",
             level="exploration",
             text="Delete, Erase and Slice (forward, wrap-around, negative indices) are compared with the model on bytes, survival of every feature, denotation of the survivors, bounds, the cut-end rule (lost / invented / missing partial markers), the emptied-feature rule, topology and REFERENCE clipping (per reference: the set of residues covered), on generated cases and exhaustively for all one/two-part locations over small L.",
             note="Trusted: harness model, rapid, Go. Open known findings: wrap-around reference clipping, cut site absorbed by the reducer, join(range,point) reduction.",
             design="§3 C03"),
 "C06": dict(technique="property-based testing (rapid: value, grammar-with-noise string and part-list generators) + exhaustive small enumeration + native go fuzzing (thorough); round-trip and denotation oracles",
             level="exploration",
             text="print->parse->print fixed points for constructor-built values and for every accepted string, equality of denotation and outer markers across the text form, and soundness of Join/Order reduction against the concatenated denotation of the parts.",
             note="Trusted: harness denotation model, rapid, Go. Open known finding: join(range, point at its end) drops the point (pinned by the suite).",
             design="§3 C06"),
 "C10": dict(technique="property-based testing (rapid) + exhaustive small-space enumeration; inverse-law (round-trip) oracle on two-step programs",
             level="exploration",
             text="insert;delete and embed;delete must restore bytes, denotations and outer markers of every host feature (and the restored location must survive its own text form); slice*;concat must restore bytes and, per feature, the set of residues with strands. Intermediate values are deep-copied so aliasing defects cannot interfere.",
             note="Trusted: harness model, rapid, Go.",
             design="§3 C10"),
 "C16": dict(technique="exhaustive enumeration over all lengths against an independent formatter + LF/CRLF differential over enumerated single-byte block mutations",
             level="exploration",
             text="Every length in the range is laid out by gts and by the harness's own formatter and the two compared byte for byte; Len/Bytes/String consistency is checked before and after the lazy decode; full records of every length are scanned through the fast (LF) and slow (CRLF) paths; every single-byte mutation of boundary-length blocks is scanned both ways and verdict and residues compared.",
             note="Trusted: harness formatter, Go. The two reader paths are reached only through the public scanner.",
             design="§3 C16"),
 "C17": dict(technique="exhaustive length sweep + property-based testing (rapid) + native go fuzzing (thorough); write->read round trip and layout oracle",
             level="exploration",
             text="Records are written with the FASTA writer, the layout is checked (70 columns, last line shorter, final newline) and the text is read back (LF and CRLF) and compared record by record; GenBank records and forward slices are converted and description/residues checked.",
             note="Trusted: Go, rapid. Domain as the statement: single-line descriptions, residues without '>'.",
             design="§3 C17"),
 "C18": dict(technique="exhaustive table check against IUPAC base sets + exhaustive small strings + property-based testing (rapid) against naive search/match references",
             level="exploration",
             text="Complement/Transcribe are checked for all 256 bytes against base-set complementation; Match is checked for all letter pairs and for generated strings for soundness (set containment) and completeness (leftmost non-overlapping scan); Search against the naive scan of all overlapping occurrences.",
             note="Trusted: harness IUPAC table (written from the definition), Go. Open known finding: query K compiled to [gtuy] (pinned by TestMatch).",
             design="§3 C18"),
 "C19": dict(technique="property-based testing (rapid) against a reference selector/boolean algebra + exhaustive order triples and insertion permutations",
             level="exploration",
             text="Selector strings are interpreted by the harness's own parser of the documented grammar (Go regexp as matcher) and compared with gts on every feature; combinators are compared with pointwise boolean algebra over the model's denotations; Filter is checked for exact sub-sequence and purity; sorted insertion for multiset, stability, sources first and non-decreasing order; LocationLess for strict-partial-order laws.",
             note="Trusted: reference selector, Go regexp, rapid.",
             design="§3 C19"),
}
PENDING_REASON = "check not built yet in this session (see DESIGN.md §3a build order); property-based testing applies and a check is planned"
def main():
    checks = []
    for pid in ALL:
        if pid not in CHECKS: continue
        c = CHECKS[pid]
        checks.append(dict(property_id=pid, quick_cmd="./check %s quick" % pid, thorough_cmd="./check %s thorough" % pid,
            evidence_file="evidence/%s.json" % pid, replay_cmd_template="./check %s --replay {path}" % pid,
            engine="harness", level_claimed=dict(category=c["level"], text=c["text"], design_ref=c["design"]),
            level_note=c["note"], technique=c["technique"]))
    m = dict(version=1,
        setup_cmd="./check --setup",
        hooks=dict(guard="verif", enable="checks build /repo through the harness module's replace directive with `-tags verif`; no guarded source hooks exist (all observation points are public API or the built binary)",
                   baseline_off_cmd="cd /repo && go test -vet=off -count=1 ./...", source_commits=[], add_only=True),
        engines=[dict(name="harness", path="harness/", serves_properties=[c["property_id"] for c in checks],
                      kind_free_text="Go test binary: pgregory.net/rapid generators + enumerators + native go fuzz targets, explicit oracles (reference model, round trip, differential), driven by ./check")],
        checks=checks,
        notes="All checks are generated-input searches against explicit oracles (property-based testing / fuzzing). See DESIGN.md.",
        not_applicable=[dict(property_id=p, reason=PENDING_REASON) for p in ALL if p not in CHECKS])
    json.dump(m, open(os.path.join(HERE, "MANIFEST.json"), "w"), indent=1)
main()
