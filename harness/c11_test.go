package harness

// C11 — Library operations are pure: arguments are never modified.
// Oracle: deep snapshot (whole backing arrays up to capacity) of every argument before and after each call,
// repeatability of each call, and stability of earlier results under later calls on the same original.

import (
	"fmt"
	"reflect"
	"sort"
	"strings"
	"sync"
	"testing"

	"github.com/go-gts/gts"
	"github.com/go-gts/gts/seqio"
	"pgregory.net/rapid"
)

type c11Op struct {
	Op string `json:"op"`
	I  int    `json:"i,omitempty"`
	N  int    `json:"n,omitempty"`
	S  string `json:"s,omitempty"`
}

type c11Case struct {
	L          int     `json:"len"`
	GuestLen   int     `json:"guest_len"`
	Shape      string  `json:"shape"` // exact, spare, middle : how the residue slice sits in its buffer
	TableSpare bool    `json:"table_spare"`
	Carrier    string  `json:"carrier"` // basic, genbank, fasta
	Feats      []Feat  `json:"feats"`
	Guest      []Feat  `json:"guest"`
	SharedJoin bool    `json:"shared_join"`
	Ops        []c11Op `json:"ops"`
}

// deepDump prints everything reachable from v; slices are printed up to their capacity, so writes into
// spare capacity are visible. *seqio.Origin is printed through its accessors (its lazy decode is internal).
func deepDump(sb *strings.Builder, v reflect.Value, depth int) {
	if depth > 12 {
		sb.WriteString("<deep>")
		return
	}
	if !v.IsValid() {
		sb.WriteString("<invalid>")
		return
	}
	switch v.Kind() {
	case reflect.Ptr:
		if v.IsNil() {
			sb.WriteString("nil")
			return
		}
		if v.Type() == reflect.TypeOf((*seqio.Origin)(nil)) && v.CanInterface() {
			o := v.Interface().(*seqio.Origin)
			fmt.Fprintf(sb, "Origin{len=%d text=%q bytes=%q}", o.Len(), o.String(), o.Bytes())
			return
		}
		sb.WriteString("&")
		deepDump(sb, v.Elem(), depth+1)
	case reflect.Interface:
		if v.IsNil() {
			sb.WriteString("nil")
			return
		}
		fmt.Fprintf(sb, "(%s)", v.Elem().Type())
		deepDump(sb, v.Elem(), depth+1)
	case reflect.Slice:
		if v.IsNil() {
			sb.WriteString("nil[]")
			return
		}
		full := v.Slice(0, v.Cap())
		fmt.Fprintf(sb, "[len=%d cap=%d:", v.Len(), v.Cap())
		if v.Type().Elem().Kind() == reflect.Uint8 {
			b := make([]byte, full.Len())
			for i := range b {
				b[i] = byte(full.Index(i).Uint())
			}
			fmt.Fprintf(sb, "%q]", b)
			return
		}
		for i := 0; i < full.Len(); i++ {
			if i == v.Len() {
				sb.WriteString(" |")
			}
			sb.WriteString(" ")
			deepDump(sb, full.Index(i), depth+1)
		}
		sb.WriteString("]")
	case reflect.Array:
		sb.WriteString("[")
		for i := 0; i < v.Len(); i++ {
			sb.WriteString(" ")
			deepDump(sb, v.Index(i), depth+1)
		}
		sb.WriteString("]")
	case reflect.Struct:
		sb.WriteString(v.Type().Name() + "{")
		for i := 0; i < v.NumField(); i++ {
			sb.WriteString(v.Type().Field(i).Name + ":")
			deepDump(sb, v.Field(i), depth+1)
			sb.WriteString(" ")
		}
		sb.WriteString("}")
	case reflect.Map:
		if v.IsNil() {
			sb.WriteString("nil{}")
			return
		}
		keys := v.MapKeys()
		sort.Slice(keys, func(i, j int) bool { return fmt.Sprint(keys[i]) < fmt.Sprint(keys[j]) })
		sb.WriteString("map{")
		for _, k := range keys {
			deepDump(sb, k, depth+1)
			sb.WriteString("=>")
			deepDump(sb, v.MapIndex(k), depth+1)
			sb.WriteString(" ")
		}
		sb.WriteString("}")
	case reflect.Func:
		sb.WriteString("func")
	case reflect.String:
		fmt.Fprintf(sb, "%q", v.String())
	case reflect.Bool:
		fmt.Fprint(sb, v.Bool())
	case reflect.Int, reflect.Int8, reflect.Int16, reflect.Int32, reflect.Int64:
		fmt.Fprint(sb, v.Int())
	case reflect.Uint, reflect.Uint8, reflect.Uint16, reflect.Uint32, reflect.Uint64:
		fmt.Fprint(sb, v.Uint())
	default:
		fmt.Fprintf(sb, "<%s>", v.Kind())
	}
}

func dump(vs ...interface{}) string {
	var sb strings.Builder
	for _, v := range vs {
		deepDump(&sb, reflect.ValueOf(v), 0)
		sb.WriteString("\n")
	}
	return sb.String()
}

// c11Arg is one argument value together with the buffers it was cut out of.
type c11Arg struct {
	seq   gts.Sequence
	buf   []byte           // the whole buffer the residues live in (canaries around them)
	table gts.FeatureSlice // full-capacity view of the table (sentinels beyond len)
	extra []interface{}    // shared backing arrays of locations
}

func (a c11Arg) snapshot() string {
	parts := []interface{}{a.buf, a.table}
	parts = append(parts, a.extra...)
	// what the accessors show
	acc := fmt.Sprintf("bytes=%q len=%d info=%s", a.seq.Bytes(), gts.Len(a.seq), dump(a.seq.Info()))
	return dump(parts...) + dump(a.seq.Features()) + acc
}

func c11Build(L int, off int, shape string, tableSpare bool, carrier string, feats []Feat, sharedJoin bool, tag string) c11Arg {
	const pad = 24
	buf := make([]byte, pad+L+pad)
	for i := range buf {
		buf[i] = '#'
	}
	copy(buf[pad:], idBytes(off, L))
	var data []byte
	switch shape {
	case "exact":
		data = make([]byte, L)
		copy(data, buf[pad:pad+L])
		buf = data
	case "spare":
		data = buf[pad : pad+L] // capacity extends over the canary tail
	default:
		data = buf[pad : pad+L : pad+L] // len==cap but in the middle of a larger buffer
	}
	gf := featsToGts(feats)
	var extra []interface{}
	if sharedJoin && L >= 4 {
		// two features share one Joined backing array that also has spare capacity with a sentinel part
		backing := make(gts.Joined, 2, 4)
		backing[0], backing[1] = gts.Range(0, 1), gts.Range(2, 4)
		full := backing[:4]
		full[2], full[3] = gts.Point(0), gts.Between(1)
		gf = append(gf, gts.NewFeature("misc_feature", backing, gts.Props{{"label", tag + "-sj1"}}),
			gts.NewFeature("source", gts.Complemented{Location: backing}, gts.Props{{"label", tag + "-sj2"}}))
		extra = append(extra, full)
	}
	table := gf
	if tableSpare {
		full := make(gts.FeatureSlice, len(gf), len(gf)+3)
		copy(full, gf)
		full = full[:len(gf)+3]
		for k := len(gf); k < len(full); k++ {
			full[k] = gts.NewFeature("sentinel", gts.Point(0), gts.Props{{"label", fmt.Sprintf("%s-sentinel%d", tag, k)}})
		}
		table = full[:len(gf)]
		gf = full
	} else if gf != nil {
		exact := make(gts.FeatureSlice, len(gf))
		copy(exact, gf)
		table, gf = exact, exact
	}
	var seq gts.Sequence
	switch carrier {
	case "genbank":
		fields := seqio.GenBankFields{LocusName: "X", Molecule: gts.DNA, Topology: gts.Circular, Division: "SYN", Date: seqio.Date{Year: 2000, Month: 1, Day: 1},
			Definition: "def", Accession: "A", Version: "A.1", Keywords: []string{"k1", "k2"}, DBLink: seqio.Dictionary{{Key: "BioProject", Value: "P1"}},
			References: []seqio.Reference{{Number: 1, Info: fmt.Sprintf("(bases 1 to %d)", maxInt(L, 1)), Title: "t"}, {Number: 2, Info: "(sites)"}},
			Comments:   []string{"c1"}, Extra: []seqio.ExtraField{seqio.GenBankExtraField("EXTRA", "v")}}
		// GenBank keeps its residues as an Origin; the buffer under test is then the table only
		seq = seqio.GenBank{Fields: fields, Table: table, Origin: seqio.NewOrigin(data)}
	case "fasta":
		seq = seqio.Fasta{Desc: "desc " + tag, Data: data}
		table, gf = nil, nil
	default:
		seq = gts.New("info-"+tag, table, data)
	}
	return c11Arg{seq: seq, buf: buf, table: gf, extra: extra}
}

// resultDump: what a result shows through its accessors (independent copy as a string).
func resultDump(v interface{}) string {
	switch r := v.(type) {
	case gts.Sequence:
		if r == nil {
			return "nil"
		}
		return fmt.Sprintf("bytes=%q len=%d\ninfo=%sfeatures=%s", r.Bytes(), gts.Len(r), dump(r.Info()), featuresString(r.Features()))
	case gts.FeatureSlice:
		return featuresString(r)
	case []gts.Feature:
		return featuresString(r)
	default:
		return fmt.Sprint(v)
	}
}

func featuresString(ff []gts.Feature) string {
	var sb strings.Builder
	for _, f := range ff {
		loc := "<nil>"
		if f.Loc != nil {
			loc = f.Loc.String()
		}
		fmt.Fprintf(&sb, "%s %s %v; ", f.Key, loc, [][]string(f.Props))
	}
	return sb.String()
}

func (op c11Op) String() string { return fmt.Sprintf("%s(%d,%d,%q)", op.Op, op.I, op.N, op.S) }

// apply runs one operation on x (and y as the second operand where one is needed).
func (op c11Op) apply(x, y gts.Sequence) interface{} {
	switch op.Op {
	case "insert":
		return gts.Insert(x, op.I, y)
	case "embed":
		return gts.Embed(x, op.I, y)
	case "delete":
		return gts.Delete(x, op.I, op.N)
	case "erase":
		return gts.Erase(x, op.I, op.N)
	case "slice":
		return gts.Slice(x, op.I, op.N)
	case "concat-xy":
		return gts.Concat(x, y)
	case "concat-yx":
		return gts.Concat(y, x)
	case "concat-xx":
		return gts.Concat(x, x, y)
	case "concat-list":
		// a caller's own list handed over with Concat(list...): the list is an argument too. It holds sequences without
		// residues and features between the others and has spare capacity.
		empty := gts.New(nil, nil, nil)
		shapes := [][]gts.Sequence{{x, empty, y}, {x, y, empty, x}, {empty, x, empty, empty, y}, {x, empty, empty, y, x}, {y, empty, x}, {x, empty}}
		src := shapes[mod(op.I, len(shapes))]
		list := make([]gts.Sequence, len(src), len(src)+3)
		copy(list, src)
		before := make([]string, len(list))
		for i, e := range list {
			before[i] = resultDump(e)
		}
		first := gts.Concat(list...)
		for i, e := range list {
			if d := resultDump(e); d != before[i] {
				return fmt.Sprintf("ARGUMENT-MODIFIED by Concat(list...): element %d of the caller's list of %d was %s and is now %s", i, len(list), clipStr(before[i], 200), clipStr(d, 200))
			}
		}
		if again := gts.Concat(list...); resultDump(again) != resultDump(first) {
			return "ARGUMENT-MODIFIED by Concat(list...): concatenating the same list again gives " + clipStr(resultDump(again), 300) + " after " + clipStr(resultDump(first), 300)
		}
		return first
	case "reverse":
		return gts.Reverse(x)
	case "rotate":
		return gts.Rotate(x, op.I)
	case "complement":
		return gts.Complement(x)
	case "transcribe":
		return gts.Transcribe(x)
	case "withinfo":
		return gts.WithInfo(x, "other")
	case "withfeatures":
		return gts.WithFeatures(x, y.Features())
	case "withbytes":
		return gts.WithBytes(x, y.Bytes())
	case "withtopology":
		return gts.WithTopology(x, gts.Linear)
	case "repair":
		return gts.FeatureSlice(gts.Repair(x.Features()))
	case "cutrepair":
		// Repair on a table that really holds fragments: x cut at op.I and concatenated again. Neither the concatenation
		// nor the pieces it was made of (they may share location storage with it) may read differently afterwards.
		a, b := gts.Slice(x, 0, op.I), gts.Slice(x, op.I, gts.Len(x))
		cat := gts.Concat(a, b)
		before := resultDump(cat) + "|" + resultDump(a) + "|" + resultDump(b)
		rep := gts.Repair(cat.Features())
		again := gts.Repair(cat.Features())
		if after := resultDump(cat) + "|" + resultDump(a) + "|" + resultDump(b); after != before {
			return "ARGUMENT-MODIFIED by Repair: was " + firstDiffContext(before, after) + " now " + firstDiffContext(after, before)
		}
		if resultDump(gts.FeatureSlice(rep)) != resultDump(gts.FeatureSlice(again)) {
			return "ARGUMENT-MODIFIED by Repair: repairing the same table again gives " + resultDump(gts.FeatureSlice(again)) + " after " + resultDump(gts.FeatureSlice(rep))
		}
		return gts.FeatureSlice(rep)
	case "repair-sources":
		// Repair on a table whose source class has several members with compound, partly partial locations (what
		// insert;delete chains leave behind): the table handed over reads the same afterwards
		L := maxInt(gts.Len(x), 6)
		i := 1 + mod(op.I, L-3)
		q := gts.Props{{"organism", "o"}}
		table := gts.FeatureSlice{
			gts.NewFeature("source", gts.Join(gts.PartialRange(0, i, gts.Partial5), gts.Range(i+1, L-1)), q.Clone()),
			gts.NewFeature("source", gts.Order(gts.Range(0, 1), gts.PartialRange(i, i+2, gts.Partial3)), q.Clone()),
			gts.NewFeature("source", gts.Join(gts.Range(0, i), gts.PartialRange(i+1, L, gts.PartialBoth)).Complement(), q.Clone()),
		}
		table = append(table, x.Features()...)
		before := resultDump(table)
		rep := gts.Repair(table)
		if after := resultDump(table); after != before {
			return "ARGUMENT-MODIFIED by Repair: the table was " + firstDiffContext(before, after) + " and is now " + firstDiffContext(after, before)
		}
		again := gts.Repair(table)
		if resultDump(gts.FeatureSlice(rep)) != resultDump(gts.FeatureSlice(again)) {
			return "ARGUMENT-MODIFIED by Repair: repairing the same table again gives " + clipStr(resultDump(gts.FeatureSlice(again)), 300) + " after " + clipStr(resultDump(gts.FeatureSlice(rep)), 300)
		}
		return gts.FeatureSlice(rep)
	case "filter":
		f, err := gts.Selector(op.S)
		if err != nil {
			return "selector error"
		}
		return x.Features().Filter(f)
	case "finsert":
		return x.Features().Insert(gts.NewFeature("gene", gts.Range(op.I, op.I+1), gts.Props{{"label", "new"}}))
	case "locate":
		return gts.Segment{op.I, op.I + op.N}.Locate(x)
	case "search":
		return fmt.Sprint(gts.Search(x, y), gts.Match(x, y))
	}
	return nil
}

func c11Check(c c11Case) *Violation {
	x := c11Build(c.L, 0, c.Shape, c.TableSpare, c.Carrier, c.Feats, c.SharedJoin, "x")
	y := c11Build(c.GuestLen, 40, c.Shape, c.TableSpare, "basic", c.Guest, false, "y")
	sx, sy := x.snapshot(), y.snapshot()
	type past struct {
		op   c11Op
		val  interface{}
		dump string
	}
	var results []past
	for k, op := range c.Ops {
		var r1, r2 interface{}
		pi := guard(func() { r1 = op.apply(x.seq, y.seq) })
		if ax := x.snapshot(); ax != sx {
			return viol("argument-modified", "op %d %s (carrier %s, bytes %s, table spare=%v) changed its first argument:\nbefore: %s\nafter:  %s", k, op, c.Carrier, c.Shape, c.TableSpare, firstDiffContext(sx, ax), firstDiffContext(ax, sx))
		}
		if ay := y.snapshot(); ay != sy {
			return viol("argument-modified", "op %d %s changed its second argument:\nbefore: %s\nafter:  %s", k, op, firstDiffContext(sy, ay), firstDiffContext(ay, sy))
		}
		if pi != nil {
			skipCase("op-panicked")
			continue
		}
		if msg, ok := r1.(string); ok && strings.HasPrefix(msg, "ARGUMENT-MODIFIED") {
			return viol("argument-modified", "op %d %s: %s", k, op, msg)
		}
		d1 := resultDump(r1)
		pi2 := guard(func() { r2 = op.apply(x.seq, y.seq) })
		if pi2 != nil {
			return viol("repeatability", "op %d %s succeeded once and panicked the second time: %s", k, op, pi2.Value)
		}
		if d2 := resultDump(r2); d2 != d1 {
			return viol("repeatability", "op %d %s gives different results on the same arguments:\n1: %s\n2: %s", k, op, firstDiffContext(d1, d2), firstDiffContext(d2, d1))
		}
		if now := resultDump(r1); now != d1 {
			return viol("result-unstable", "op %d %s: the first result changed when the operation was repeated:\nwas: %s\nnow: %s", k, op, firstDiffContext(d1, now), firstDiffContext(now, d1))
		}
		if ax := x.snapshot(); ax != sx {
			return viol("argument-modified", "op %d %s (second call) changed its first argument:\nbefore: %s\nafter:  %s", k, op, firstDiffContext(sx, ax), firstDiffContext(ax, sx))
		}
		for _, p := range results {
			if now := resultDump(p.val); now != p.dump {
				return viol("result-unstable", "result of earlier %s changed after %s on the same original:\nwas: %s\nnow: %s", p.op, op, firstDiffContext(p.dump, now), firstDiffContext(now, p.dump))
			}
		}
		results = append(results, past{op, r1, d1})
	}
	// the same operations on the very same values from three goroutines at once: values that are only read can be
	// shared (what every operation promises by not changing its arguments); each goroutine must see the results the
	// calls gave one after the other. Schedule-dependent: a failure is real, a pass proves little.
	if len(results) > 0 {
		var mu sync.Mutex
		var first *Violation
		var wg sync.WaitGroup
		for g := 0; g < 3; g++ {
			wg.Add(1)
			go func() {
				defer wg.Done()
				for round := 0; round < 3; round++ {
					for _, p := range results {
						var r interface{}
						pi := guard(func() { r = p.op.apply(x.seq, y.seq) })
						d := ""
						if pi == nil {
							d = resultDump(r)
						}
						mu.Lock()
						if first == nil {
							if pi != nil {
								first = panicViolation(fmt.Sprintf("%s from three goroutines at once", p.op), pi)
							} else if d != p.dump {
								first = viol("concurrent", "%s from three goroutines at once on the same values gives\n%s\nalone it gave\n%s", p.op, firstDiffContext(d, p.dump), firstDiffContext(p.dump, d))
							}
						}
						mu.Unlock()
					}
				}
			}()
		}
		wg.Wait()
		if first != nil {
			return first
		}
		if ax := x.snapshot(); ax != sx {
			return viol("argument-modified", "the operations run from three goroutines changed their first argument:\nbefore: %s\nafter:  %s", firstDiffContext(sx, ax), firstDiffContext(ax, sx))
		}
	}
	return nil
}

// firstDiffContext returns a window of a around the first position where a and b differ.
func firstDiffContext(a, b string) string {
	i := firstDiff(a, b)
	lo, hi := maxInt(0, i-60), minInt(len(a), i+100)
	return fmt.Sprintf("…%s…", a[lo:hi])
}

func c11Classify(c c11Case) (bool, []string) {
	labels := []string{"carrier:" + c.Carrier, "bytes:" + c.Shape, fmt.Sprintf("ops=%d", len(c.Ops))}
	if c.TableSpare {
		labels = append(labels, "table-spare-capacity")
	}
	if c.SharedJoin {
		labels = append(labels, "shared-joined-backing")
	}
	for _, op := range c.Ops {
		labels = append(labels, "op:"+op.Op)
	}
	return c.Shape != "exact" || c.TableSpare || c.SharedJoin, labels
}

func c11KF(c c11Case, v *Violation) []string { return nil }

var c11Prop = &Prop[c11Case]{ID: "C11", Check: c11Check, Classify: c11Classify, KF: c11KF}

func init() { registerReplay(c11Prop) }

var c11OpNames = []string{"insert", "embed", "delete", "erase", "slice", "concat-xy", "concat-yx", "concat-xx", "concat-list", "repair-sources", "reverse", "rotate",
	"complement", "transcribe", "withinfo", "withfeatures", "withbytes", "withtopology", "repair", "cutrepair", "cutrepair", "filter", "finsert", "locate", "search"}

func c11GenOp(t *rapid.T, L int, name string) c11Op {
	op := c11Op{Op: name}
	switch name {
	case "insert", "embed":
		op.I = rapid.IntRange(0, L).Draw(t, "i")
	case "delete", "erase", "locate":
		op.I = rapid.IntRange(0, L).Draw(t, "i")
		op.N = rapid.IntRange(0, L-op.I).Draw(t, "n")
	case "slice":
		op.I = rapid.IntRange(0, L).Draw(t, "s")
		op.N = rapid.IntRange(0, L).Draw(t, "e")
	case "rotate":
		op.I = rapid.IntRange(-L, 2*L).Draw(t, "n")
	case "filter":
		op.S = rapid.SampledFrom([]string{"gene", "source", "/label=x", "/note", ""}).Draw(t, "sel")
	case "finsert":
		op.I = rapid.IntRange(0, L-1).Draw(t, "at")
	case "cutrepair":
		op.I = rapid.IntRange(0, L).Draw(t, "cut")
	}
	return op
}

func c11Gen(t *rapid.T) c11Case {
	L := rapid.IntRange(1, 12).Draw(t, "L")
	g := rapid.IntRange(0, 5).Draw(t, "g")
	c := c11Case{L: L, GuestLen: g,
		Shape:      rapid.SampledFrom([]string{"exact", "spare", "middle"}).Draw(t, "shape"),
		TableSpare: rapid.Bool().Draw(t, "tablespare"),
		Carrier:    rapid.SampledFrom([]string{"basic", "basic", "genbank", "fasta"}).Draw(t, "carrier"),
		SharedJoin: rapid.IntRange(0, 2).Draw(t, "sharedjoin") == 0,
	}
	// Repair on non-contiguous classes is a separate (C12) concern: keep classes contiguous here unless shared join asks otherwise
	cfg := locCfg{L: L, Hot: []int{0, L, L / 2}, MaxDepth: 2, MaxParts: 3, Ambig: true, Sites: true}
	c.Feats = genFeats(t, cfg, rapid.IntRange(0, 4).Draw(t, "nfeat"), "x", true)
	c.Guest = genFeats(t, locCfg{L: g, Hot: []int{0, g}, MaxDepth: 1, MaxParts: 2, Sites: true}, rapid.IntRange(0, 2).Draw(t, "nguest"), "y", false)
	n := rapid.IntRange(1, 4).Draw(t, "nops")
	for k := 0; k < n; k++ {
		c.Ops = append(c.Ops, c11GenOp(t, L, rapid.SampledFrom(c11OpNames).Draw(t, "opname")))
	}
	return c
}

func TestC11(t *testing.T) {
	st := newStats("C11")
	defer st.flush()
	// systematic: every operation x every aliasing shape x carrier on a fixed small record
	e := enumPart(t, c11Prop, st, "op-shape-matrix")
	fixed := []Feat{
		{Key: "source", Loc: lrg(0, 8), Quals: [][]string{{"label", "x0"}}},
		{Key: "gene", Loc: ljn(lrg(1, 3), lrg(5, 7)), Quals: [][]string{{"label", "x1"}, {"note", "n"}}},
		{Key: "CDS", Loc: lco(lrg(2, 6)), Quals: [][]string{{"label", "x2"}, {"codon_start", "1"}, {"transl_table", "11"}}},
		{Key: "CDS", Loc: lrg(1, 8), Quals: [][]string{{"label", "x4"}, {"codon_start", "2"}, {"translation", "MK"}, {"transl_except", "(pos:5..7,aa:Trp)", "(pos:complement(2..4),aa:Sec)"}}},
		{Key: "tRNA", Loc: lrg(0, 8), Quals: [][]string{{"label", "x5"}, {"anticodon", "(pos:4..6,aa:Phe,seq:aaa)"}, {"note", "pos:1..2"}, {"rpt_unit_range", "2..3"}, {"citation", "[1]"}}},
		{Key: "variation", Loc: lpt(4), Quals: [][]string{{"label", "x3"}}},
	}
	guest := []Feat{{Key: "gene", Loc: lrg(0, 2), Quals: [][]string{{"label", "y0"}}}, {Key: "tRNA", Loc: lrg(0, 3), Quals: [][]string{{"label", "y1"}, {"anticodon", "(pos:1..3,aa:Met,seq:cat)"}}}}
	for _, name := range c11OpNames {
		for _, shape := range []string{"exact", "spare", "middle"} {
			for _, ts := range []bool{false, true} {
				for _, carrier := range []string{"basic", "genbank", "fasta"} {
					for _, sj := range []bool{false, true} {
						for _, arg := range [][2]int{{0, 2}, {3, 2}, {8, 0}, {2, 7}, {4, 2}} { // 4: inside the gap between the two parts of the join
							op := c11Op{Op: name, I: arg[0], N: arg[1], S: "gene"}
							if name == "finsert" && op.I >= 8 {
								op.I = 7
							}
							if (name == "delete" || name == "erase" || name == "locate") && op.I+op.N > 8 {
								op.N = 8 - op.I
							}
							if !e.try(c11Case{L: 8, GuestLen: 3, Shape: shape, TableSpare: ts, Carrier: carrier, Feats: fixed, Guest: guest, SharedJoin: sj, Ops: []c11Op{op, op}}) {
								return
							}
						}
					}
				}
			}
		}
	}
	e.done(true)
	// the same matrix on tables of 16..65 features (with and without spare capacity), a guest that carries a source
	// feature (which sorts to the front of the result) and an insertion in the middle
	eb := enumPart(t, c11Prop, st, "op-matrix-big-tables")
	for _, nf := range []int{15, 16, 17, 18, 33, 65} {
		var big []Feat
		for i := 0; i < nf; i++ {
			var l Loc = lrg(3*i+1, 3*i+3)
			if i%5 == 2 {
				l = lco(l)
			}
			big = append(big, Feat{Key: []string{"gene", "CDS", "misc_feature"}[i%3], Loc: l, Quals: [][]string{{"label", fmt.Sprintf("x%d", i)}}})
		}
		L := 3*nf + 4
		bigGuest := []Feat{{Key: "source", Loc: lrg(0, 3), Quals: [][]string{{"label", "ysrc"}}}, {Key: "gene", Loc: lrg(0, 2), Quals: [][]string{{"label", "y0"}}}}
		for _, name := range c11OpNames {
			for _, ts := range []bool{false, true} {
				for _, carrier := range []string{"basic", "genbank"} {
					for _, arg := range [][2]int{{0, 2}, {L / 2, 2}, {L - 3, 3}} {
						op := c11Op{Op: name, I: arg[0], N: arg[1], S: "gene"}
						if !eb.try(c11Case{L: L, GuestLen: 3, Shape: "spare", TableSpare: ts, Carrier: carrier, Feats: big, Guest: bigGuest, Ops: []c11Op{op, op}}) {
							return
						}
					}
				}
			}
		}
	}
	eb.done(true)
	rapidPart(t, c11Prop, st, "rapid", pick(8000, 80000), c11Gen)
}
