package harness

// C05 — Reverse and Complement mirror coordinates; reverse-complement preserves meaning.

import (
	"bytes"
	"fmt"
	"testing"

	"github.com/go-gts/gts"
	"pgregory.net/rapid"
)

type c05Case struct {
	Bytes string `json:"bytes"`
	Raw   []byte `json:"raw,omitempty"` // the residues when they are not valid UTF-8 text (replaces Bytes)
	Feats []Feat `json:"feats"`
	GB    bool   `json:"genbank,omitempty"` // the sequence is a seqio.GenBank record instead of a gts.New value
}

// strandAlphabet: one letter of each complementary IUPAC pair (both cases): every byte identifies its
// position and changes under complementation into a byte outside the alphabet, so extracted bytes
// identify (position, strand).
var strandAlphabet = []byte("ACRKBDacrkbd")

// refComplement is the harness's own IUPAC complement (base-set complementation), U read as T.
func refComplementByte(b byte) byte {
	const from = "ACGTURYKMBDHVacgturykmbdhv"
	const to = "TGCAAYRMKVHDBtgcaayrmkvhdb"
	for i := 0; i < len(from); i++ {
		if from[i] == b {
			return to[i]
		}
	}
	return b
}

// modelExtract reads the bytes a denotation selects: reverse-strand residues complemented.
func modelExtract(d []Elem, seq []byte) []byte {
	out := []byte{}
	for _, e := range d {
		if e.Site {
			continue
		}
		b := seq[e.Pos]
		if e.Rev {
			b = refComplementByte(b)
		}
		out = append(out, b)
	}
	return out
}

func reverseBuggySites(l Loc, L int) Loc {
	switch l.K {
	case "bt":
		return lbt(L - 1 - l.A)
	case "pt", "rg", "am":
		return reverseLoc(l, L)
	case "co":
		return lco(reverseBuggySites(l.Parts[0], L))
	default:
		out := Loc{K: l.K}
		for k := len(l.Parts) - 1; k >= 0; k-- {
			out.Parts = append(out.Parts, reverseBuggySites(l.Parts[k], L))
		}
		return out
	}
}

func c05Check(c c05Case) *Violation {
	orig := []byte(c.Bytes)
	if len(c.Raw) > 0 {
		orig = c.Raw
	}
	L := len(orig)
	mk := func() gts.Sequence {
		if c.GB {
			return c02Carry(1, "REC", c.Feats, orig)
		}
		return gts.New(nil, featsToGts(c.Feats), append([]byte(nil), orig...))
	}
	var rev, revrev, comp, compcomp, rc gts.Sequence
	if pi := guard(func() { rev = gts.Reverse(mk()) }); pi != nil {
		return panicViolation("Reverse", pi)
	}
	// --- Reverse: bytes mirrored, features mirrored
	want := make([]byte, L)
	for i := range orig {
		want[L-1-i] = orig[i]
	}
	if !bytes.Equal(rev.Bytes(), want) {
		return viol("bytes", "Reverse(%q) = %q", orig, rev.Bytes())
	}
	if len(rev.Features()) != len(c.Feats) {
		return viol("count", "Reverse: %d features became %d", len(c.Feats), len(rev.Features()))
	}
	bl := byLabel(rev.Features())
	for _, f := range c.Feats {
		gg := bl[f.label()]
		if len(gg) != multOf(c.Feats, f) {
			return viol("presence", "Reverse: feature %s present %d times", f.label(), len(gg))
		}
		exp := reverseLoc(f.Loc, L)
		what := fmt.Sprintf("Reverse L=%d feature %s %s", L, f.label(), f.Loc)
		if v := compareFeature(what, gg[0], f, den(exp), markers(exp), L); v != nil {
			return v
		}
		if !hasResidue(den(exp)) {
			ast, _ := fromGts(gg[0].Loc)
			es, as := collapse(den(exp)), collapse(den(ast))
			if !sameElems(es, as) {
				return viol("site", "%s: expected mirrored sites %s, got %s (location %s)", what, elemsString(es), elemsString(as), ast)
			}
		}
	}
	// --- involutions
	if pi := guard(func() { revrev = gts.Reverse(rev) }); pi != nil {
		return panicViolation("Reverse(Reverse)", pi)
	}
	if !bytes.Equal(revrev.Bytes(), orig) {
		return viol("involution-bytes", "Reverse(Reverse(%q)) = %q", orig, revrev.Bytes())
	}
	if v := sameFeatureMeaning("Reverse(Reverse(x)) vs x", mk().Features(), revrev.Features(), L, false); v != nil {
		v.Kind = "involution-" + v.Kind
		return v
	}
	if pi := guard(func() { comp = gts.Complement(mk()) }); pi != nil {
		return panicViolation("Complement", pi)
	}
	wantC := make([]byte, L)
	for i := range orig {
		wantC[i] = refComplementByte(orig[i])
	}
	if !bytes.Equal(comp.Bytes(), wantC) {
		return viol("bytes", "Complement(%q) = %q, want %q", orig, comp.Bytes(), wantC)
	}
	bc := byLabel(comp.Features())
	for _, f := range c.Feats {
		gg := bc[f.label()]
		if len(gg) != multOf(c.Feats, f) {
			return viol("presence", "Complement: feature %s present %d times", f.label(), len(gg))
		}
		exp := lco(f.Loc)
		if v := compareFeature(fmt.Sprintf("Complement feature %s %s", f.label(), f.Loc), gg[0], f, den(exp), markers(exp), L); v != nil {
			return v
		}
	}
	if pi := guard(func() { compcomp = gts.Complement(comp) }); pi != nil {
		return panicViolation("Complement(Complement)", pi)
	}
	wantCC := make([]byte, L)
	for i, b := range orig {
		switch b {
		case 'U':
			b = 'T'
		case 'u':
			b = 't'
		}
		wantCC[i] = b
	}
	if !bytes.Equal(compcomp.Bytes(), wantCC) {
		return viol("involution-bytes", "Complement(Complement(%q)) = %q", orig, compcomp.Bytes())
	}
	if v := sameFeatureMeaning("Complement(Complement(x)) vs x", mk().Features(), compcomp.Features(), L, false); v != nil {
		v.Kind = "involution-" + v.Kind
		return v
	}
	// --- extraction symmetry across reverse-complement, tied to the model's own extraction
	if pi := guard(func() { rc = gts.Reverse(gts.Complement(mk())) }); pi != nil {
		return panicViolation("Reverse(Complement)", pi)
	}
	bare := gts.New(nil, nil, append([]byte(nil), orig...))
	bareRC := gts.New(nil, nil, append([]byte(nil), rc.Bytes()...))
	brc := byLabel(rc.Features())
	for _, f := range c.Feats {
		gg := brc[f.label()]
		if len(gg) != multOf(c.Feats, f) {
			return viol("presence", "Reverse(Complement): feature %s present %d times", f.label(), len(gg))
		}
		var x, y []byte
		gf := f.toGts()
		if pi := guard(func() { x = gf.Loc.Region().Locate(bare).Bytes() }); pi != nil {
			return panicViolation("Locate(original)", pi)
		}
		if pi := guard(func() { y = gg[0].Loc.Region().Locate(bareRC).Bytes() }); pi != nil {
			return panicViolation("Locate(reverse complement)", pi)
		}
		// extraction from the records themselves (features and all) must not differ from extraction from their residues
		var xr, yr []byte
		if pi := guard(func() { xr = gf.Loc.Region().Locate(mk()).Bytes() }); pi != nil {
			return panicViolation("Locate(original record)", pi)
		}
		if pi := guard(func() { yr = gg[0].Loc.Region().Locate(rc).Bytes() }); pi != nil {
			return panicViolation("Locate(reverse-complemented record)", pi)
		}
		if !bytes.Equal(xr, x) || !bytes.Equal(yr, y) {
			return viol("extract-record", "feature %s %s: extracted from the records %q / %q, from their bare residues %q / %q", f.label(), f.Loc, xr, yr, x, y)
		}
		m := modelExtract(den(f.Loc), orig)
		if !bytes.Equal(x, m) {
			return viol("extract-model", "feature %s %s on %q: Locate gives %q, the denotation gives %q", f.label(), f.Loc, orig, x, m)
		}
		ast, ok := fromGts(gg[0].Loc)
		if !ok || !ast.wellFormed() || !ast.inBounds(L) {
			return viol("malformed", "feature %s: malformed location %#v after Reverse(Complement)", f.label(), gg[0].Loc)
		}
		my := modelExtract(den(ast), rc.Bytes())
		if !bytes.Equal(y, my) {
			return viol("extract-model", "feature %s %s on reverse complement %q: Locate gives %q, the denotation gives %q", f.label(), ast, rc.Bytes(), y, my)
		}
		// the documented reduction drops an element that repeats its predecessor, so the comparison across
		// the two records is made on the collapsed residue lists (identical to x and y when nothing repeats)
		cx, cy := modelExtract(residues(den(f.Loc)), orig), modelExtract(residues(den(ast)), rc.Bytes())
		cx, cy = normU(cx), normU(cy) // complementing twice reads U back as T (allowed by the statement)
		if !bytes.Equal(cx, cy) {
			return viol("extract-symmetry", "feature %s %s on %q extracts %q, but %q from the reverse complement (location %s)", f.label(), f.Loc, orig, cx, cy, ast)
		}
	}
	return nil
}

func c05Classify(c c05Case) (bool, []string) {
	labels := []string{}
	nt := false
	for _, f := range c.Feats {
		var walk func(l Loc, underCo bool)
		walk = func(l Loc, underCo bool) {
			switch l.K {
			case "jn", "or":
				labels = append(labels, fmt.Sprintf("%s-arity=%d", l.K, len(l.Parts)))
				if len(l.Parts) >= 3 || len(l.Parts)%2 == 1 {
					nt = true
				}
				if underCo {
					labels = append(labels, "multi-under-complement")
					nt = true
				}
			case "bt":
				labels = append(labels, "site")
				nt = true
			}
			for _, p := range l.Parts {
				walk(p, underCo || l.K == "co")
			}
		}
		walk(f.Loc, false)
		if f.Raw {
			labels = append(labels, "raw-literal")
		}
		if !hasResidue(den(f.Loc)) {
			labels = append(labels, "site-only")
		}
	}
	return nt, labels
}

func c05KF(c c05Case, v *Violation) []string {
	L := maxInt(len(c.Bytes), len(c.Raw))
	var sigs []string
	switch v.Kind {
	case "site", "involution-site":
		for _, f := range c.Feats {
			if !hasResidue(den(f.Loc)) {
				sigs = append(sigs, "between-reverse-off-by-one")
				break
			}
		}
	case "bounds", "malformed", "involution-bounds", "involution-malformed":
		// gap L mirrors to gap -1 with the off-by-one
		for _, f := range c.Feats {
			for _, x := range f.Loc.leaves() {
				if x.K == "bt" && x.A == L {
					sigs = append(sigs, "between-reverse-off-by-one")
				}
			}
		}
	case "denotation", "involution-denotation", "extract-symmetry":
		for _, f := range c.Feats {
			r1, t1 := reduceSim(reverseLoc(f.Loc, L))
			_, t2 := reduceSim(reverseLoc(r1, L))
			if t1 || t2 {
				sigs = append(sigs, "join-range-then-point-drops-point")
			}
			if f.Loc.hasKind("bt") {
				b1, u1 := reduceSim(reverseBuggySites(f.Loc, L))
				_, u2 := reduceSim(reverseBuggySites(b1, L))
				if u1 || u2 {
					sigs = append(sigs, "between-reverse-off-by-one")
				}
			}
		}
	}
	return sigs
}

var c05Prop = &Prop[c05Case]{ID: "C05", Check: c05Check, Classify: c05Classify, KF: c05KF}

func init() { registerReplay(c05Prop) }

var iupacBytes = []byte("ACGTURYKMBDHVNSWacgturykmbdhvnsw-*x5")

func c05Gen(t *rapid.T) c05Case {
	var bs []byte
	if rapid.IntRange(0, 3).Draw(t, "alpha") > 0 {
		L := drawLen(t, 1, 12, "L")
		off := rapid.IntRange(0, 11).Draw(t, "off")
		for i := 0; i < L; i++ {
			if i < 12 {
				bs = append(bs, strandAlphabet[(off+i)%12])
			} else {
				bs = append(bs, strandAlphabet[splitmix(uint64(off)*7919+uint64(i))%12]) // aperiodic beyond the alphabet
			}
		}
	} else {
		bs = rapid.SliceOfN(rapid.SampledFrom(iupacBytes), 1, 14).Draw(t, "bytes")
	}
	L := len(bs)
	c := c05Case{Bytes: string(bs), GB: rapid.IntRange(0, 3).Draw(t, "genbank") == 0}
	cfg := locCfg{L: L, Hot: []int{0, 1, L - 1, L, L / 2}, MaxDepth: 3, MaxParts: scopeParts(6), Ambig: true, Sites: true, MaxSpan: 3}
	if genLarge {
		cfg.MaxSpan = 0
	}
	c.Feats = addTwins(t, genFeats(t, cfg, drawCount(t, 1, 4, 9, "nfeat"), "f", true), "f")
	// some features as raw literals of a given arity (every arity 1..6 of non-reduced parts)
	if rapid.Bool().Draw(t, "addraw") {
		ar := rapid.IntRange(1, 6).Draw(t, "arity")
		parts := make([]Loc, ar)
		for i := range parts {
			parts[i] = cfg.leaf(t)
		}
		k := rapid.SampledFrom([]string{"jn", "or"}).Draw(t, "rawkind")
		l := Loc{K: k, Parts: parts}
		if rapid.Bool().Draw(t, "rawco") {
			l = lco(l)
		}
		c.Feats = append(c.Feats, Feat{Key: "misc_feature", Loc: l, Raw: true, Quals: [][]string{{"label", "raw0"}}})
	}
	return c
}

func TestC05(t *testing.T) {
	st := newStats("C05")
	defer st.flush()
	rapidPart(t, c05Prop, st, "rapid", pick(30000, 250000), c05Gen)
	if t.Failed() {
		return
	}
	rapidLargePart(t, c05Prop, st, pick(1000, 15000), c05Gen)
	if t.Failed() {
		return
	}
	rapidTwinsPart(t, c05Prop, st, pick(3000, 30000), c05Gen)
	if t.Failed() {
		return
	}
	// any byte: a residue string is bytes, not text - every byte value, alone and in runs, between IUPAC letters
	eb := enumPart(t, c05Prop, st, "every-byte-value")
	for b := 0; b < 256; b++ {
		x := byte(b)
		raw := []byte{'A', 'C', x, 'G', 'T', 'a', x, x, 'c', 'k', x}
		ff := []Feat{{Key: "gene", Loc: lrg(0, len(raw)), Quals: [][]string{{"label", "f00"}}},
			{Key: "CDS", Loc: lco(ljn(lrg(1, 4), lrg(5, 8))), Quals: [][]string{{"label", "f01"}}},
			{Key: "misc_feature", Loc: lrg(2, 3), Quals: [][]string{{"label", "f02"}}}}
		if !eb.try(c05Case{Raw: raw, Feats: ff}) {
			return
		}
	}
	eb.done(true)
	// arity sweep: joins and orders of every arity 1..6 built from disjoint, non-abutting single-base and
	// two-base parts over L=12 (13 for odd positions), plain and complemented, every partial combination on the
	// first and last part, in ascending and in shuffled part order.
	e := enumPart(t, c05Prop, st, "arity-sweep")
	bs := string(strandAlphabet)
	for ar := 1; ar <= 6; ar++ {
		for _, kind := range []string{"jn", "or"} {
			for mask := 0; mask < 16; mask++ {
				for variant := 0; variant < 4; variant++ {
					parts := make([]Loc, ar)
					for i := range parts {
						s := 2 * i
						switch {
						case variant%2 == 0:
							parts[i] = lrg(s, s+1)
						case i%2 == 0:
							parts[i] = lpt(s)
						default:
							parts[i] = lrg(s, s+1)
						}
					}
					parts[0].P5, parts[0].P3 = parts[0].K == "rg" && mask&1 != 0, parts[0].K == "rg" && mask&2 != 0
					last := &parts[ar-1]
					if last.K == "rg" {
						last.P5, last.P3 = last.P5 || mask&4 != 0, last.P3 || mask&8 != 0
					}
					if variant >= 2 {
						for i, j := 0, len(parts)-1; i < j; i, j = i+1, j-1 {
							parts[i], parts[j] = parts[j], parts[i]
						}
					}
					l := Loc{K: kind, Parts: parts}
					for _, co := range []bool{false, true} {
						for _, raw := range []bool{false, true} {
							x := l
							if co {
								x = lco(l)
							}
							if !raw {
								x, _ = fromGts(toGts(x))
							}
							c := c05Case{Bytes: bs, Feats: []Feat{{Key: "CDS", Loc: x, Raw: raw, Quals: [][]string{{"label", "f0"}}}}}
							if !e.try(c) {
								return
							}
						}
					}
				}
			}
		}
	}
	e.done(true)
}

func normU(p []byte) []byte {
	out := make([]byte, len(p))
	for i, b := range p {
		switch b {
		case 'U':
			b = 'T'
		case 'u':
			b = 't'
		}
		out[i] = b
	}
	return out
}
