package harness

// C15 — Multi-site edit commands act once at every located site, in input coordinates.
// The real binary is run; its output is parsed back with seqio and compared with the model applied to the input.

import (
	"bytes"
	"fmt"
	"os"
	"path/filepath"
	"sort"
	"strings"
	"testing"

	"github.com/go-gts/gts"
	"github.com/go-gts/gts/seqio"
	"pgregory.net/rapid"
)

type c15Case struct {
	Cmd      string   `json:"cmd"` // delete, insert, infix, split, rotate, extract
	L        int      `json:"len"`
	Circ     bool     `json:"circ"`
	Feats    []Feat   `json:"feats"`
	Locators []string `json:"locators"`        // one (extract: one or more)
	Flag     bool     `json:"flag,omitempty"`  // delete -e / insert,infix -e / extract -v
	Fasta    bool     `json:"fasta,omitempty"` // -F fasta
	GuestLen int      `json:"guest_len,omitempty"`
	Guests   int      `json:"guests,omitempty"`   // insert, infix: this many further guest records follow the first in the guest stream
	Pre      []int    `json:"pre,omitempty"`      // other records (c15Others) placed before the record in the stream ...
	Post     []int    `json:"post,omitempty"`     // ... and after it: the stream's output must be the outputs of its records one by one
	Sin      int      `json:"sin,omitempty"`      // standard input: 0 a pipe, 1 a regular file, 2 a regular file positioned behind a line the caller consumed
	Long     bool     `json:"long,omitempty"`     // options in their long spelling (--erase, --embed, --invert-region, --format fasta; the flag parser of gts does not take --name=value)
	InPlace  bool     `json:"in_place,omitempty"` // insert, infix: -o names the guest / host file itself (an update in place)
	Twice    bool     `json:"twice,omitempty"`    // the input stream holds the record twice: both copies must be treated alike
	Lit      bool     `json:"lit,omitempty"`      // insert with a single guest: the guest is given literally on the command line (@residues) and has no features
}

type mRegion struct {
	segs [][2]int // forward segments in region order (reading order for forward strand)
	comp bool
	mod  string // modifier text without '@' ("" = none)
}

func (r mRegion) length() int {
	n := 0
	for _, s := range r.segs {
		n += s[1] - s[0]
	}
	return n
}

// bounds of the modified region relative to the 5' end.
func (r mRegion) bounds() (lo, hi int) {
	if r.mod == "" {
		return 0, r.length()
	}
	return c08ParseMod(r.mod).bounds(r.length())
}

// elems returns the residues of the (modified) region in reading order, ok=false if it leaves [0,L).
func (r mRegion) elems(L int) ([]Elem, bool) {
	lo, hi := r.bounds()
	return expectedSlice(r.segs, r.comp, lo, hi, L)
}

// boundary maps a boundary index k of the spliced region (0 = 5' end, length = 3' end, outside = outward
// extension of the first/last segment) to an input coordinate. A boundary that falls exactly on the junction of
// two segments is placed at the end of the earlier one (the convention of Regions.Resize; the statement does not
// say which of the two coordinates is meant).
func (r mRegion) boundary(k int) int {
	order := r.segs
	d := 1
	if r.comp {
		d = -1
		order = make([][2]int, len(r.segs))
		for i := range r.segs {
			order[i] = r.segs[len(r.segs)-1-i]
		}
	}
	for i, sg := range order {
		h, n := sg[0], sg[1]-sg[0]
		if r.comp {
			h = sg[1]
		}
		if k <= n || i == len(order)-1 {
			return h + d*k
		}
		k -= n
	}
	return 0
}

// head is the 5' boundary coordinate of the (modified) region in input coordinates.
func (r mRegion) head() int {
	lo, _ := r.bounds()
	return r.boundary(lo)
}

func (r mRegion) tail() int {
	_, hi := r.bounds()
	return r.boundary(hi)
}

func locToRegion(l Loc) mRegion {
	comp := false
	if l.K == "co" {
		comp = true
		l = l.Parts[0]
	}
	var segs [][2]int
	for _, x := range l.leaves() {
		if x.K == "pt" {
			segs = append(segs, [2]int{x.A, x.A + 1})
		} else {
			segs = append(segs, [2]int{x.A, x.B})
		}
	}
	return mRegion{segs: segs, comp: comp}
}

// resolveLocator: the model's reading of a locator string over the record (table order for selectors).
func resolveLocator(text string, L int, feats []Feat) ([]mRegion, bool) {
	spec, mod := text, ""
	if i := strings.IndexByte(text, '@'); i >= 0 {
		spec, mod = text[:i], text[i+1:]
	}
	var base []mRegion
	switch {
	case spec == "" && mod != "":
		for _, f := range feats {
			base = append(base, locToRegion(f.Loc))
		}
	case strings.HasPrefix(spec, "^") || strings.HasPrefix(spec, "$"):
		m := c08ParseMod(spec)
		lo, hi := m.bounds(L)
		if lo < 0 || hi > L {
			return nil, false
		}
		base = append(base, mRegion{segs: [][2]int{{lo, hi}}})
	case spec[0] >= '0' && spec[0] <= '9' || strings.HasPrefix(spec, "complement("):
		l, err := parseSimpleLoc(spec)
		if err != nil {
			return nil, false
		}
		base = append(base, locToRegion(l))
	default:
		key, clauses, err := refSelector(spec)
		if err != nil {
			return nil, false
		}
		for _, f := range feats {
			if refAccept(key, clauses, f) {
				base = append(base, locToRegion(f.Loc))
			}
		}
	}
	for i := range base {
		base[i].mod = mod
		if _, ok := base[i].elems(L); !ok {
			return nil, false
		}
	}
	return base, true
}

func c15Record(c c15Case) []byte {
	return c15RecordNamed("INPUT", c.Circ, c.L, 0, c.Feats)
}

func c15RecordNamed(name string, circ bool, n, off int, feats []Feat) []byte {
	rec := gbRec{Locus: name, Mol: "DNA", Circ: circ, Div: "SYN", Date: [3]int{2021, 3, 4}, Def: name + " record", Acc: name, Ver: name + ".1", Feats: feats, ResLen: n}
	gb := rec.build()
	return []byte(gb.WithBytes(idBytes(off, n)).(seqio.GenBank).String())
}

type outRec struct {
	bytes []byte
	feats []gts.Feature
	circ  bool
	isGB  bool
}

func parseOutput(out []byte) ([]outRec, string) {
	resetQualifierRegistries()
	var recs []outRec
	errText := ""
	if pi := guard(func() {
		sc := seqio.NewAutoScanner(bytes.NewReader(out))
		for sc.Scan() {
			s := sc.Value()
			r := outRec{bytes: append([]byte(nil), s.Bytes()...), feats: s.Features()}
			if gb, ok := s.(seqio.GenBank); ok {
				r.isGB = true
				r.circ = gb.Fields.Topology == gts.Circular
			}
			recs = append(recs, r)
		}
		if err := sc.Err(); err != nil {
			errText = err.Error()
		}
	}); pi != nil {
		errText = "panic while parsing the output: " + pi.Value
	}
	return recs, errText
}

func (c c15Case) argv(extra ...string) []string {
	args := []string{c.Cmd, "--no-cache"}
	if c.Fasta {
		if c.Long {
			args = append(args, "--format", "fasta")
		} else {
			args = append(args, "-F", "fasta")
		}
	}
	if c.Flag {
		switch c.Cmd {
		case "delete":
			args = append(args, map[bool]string{false: "-e", true: "--erase"}[c.Long])
		case "insert", "infix":
			args = append(args, map[bool]string{false: "-e", true: "--embed"}[c.Long])
		case "extract":
			args = append(args, map[bool]string{false: "-v", true: "--invert-region"}[c.Long])
		}
	}
	args = append(args, extra...)
	return args
}

// featureResidues: per label, the residue set a table denotes.
func featureResidues(ff []gts.Feature) (map[string][]posStrand, bool) {
	acc := map[string][]Elem{}
	for _, f := range ff {
		ast, ok := fromGts(f.Loc)
		if !ok || !ast.wellFormed() {
			return nil, false
		}
		acc[labelOf(f)] = append(acc[labelOf(f)], den(ast)...)
	}
	out := map[string][]posStrand{}
	for k, d := range acc {
		out[k] = resSet(d)
	}
	return out, true
}

// c15Others: records unlike the case's own record (other lengths, other tables, none at all) that may share its stream.
func c15Others(L int) [][]byte {
	q := func(label, gene string) [][]string { return [][]string{{"label", label}, {"gene", gene}} }
	return [][]byte{
		c15RecordNamed("OTHER0", false, L, 11, nil),
		c15RecordNamed("OTHER1", false, L+7, 23, []Feat{{Key: "gene", Loc: lrg(5, 9), Quals: q("o1", "a")}}),
		c15RecordNamed("OTHER2", true, L, 5, []Feat{{Key: "CDS", Loc: lco(lrg(3, 12)), Quals: q("o2", "b")}, {Key: "misc_feature", Loc: lrg(10, 15), Quals: q("o3", "c")}}),
		c15RecordNamed("OTHER3", false, L+7, 31, []Feat{{Key: "gene", Loc: lrg(2, 4), Quals: q("o4", "a")}, {Key: "gene", Loc: lrg(8, 12), Quals: q("o5", "b")}, {Key: "CDS", Loc: lrg(8, 12), Quals: q("o6", "b")}, {Key: "gene", Loc: lco(lrg(15, 19)), Quals: q("o7", "c")}}),
		c15RecordNamed("OTHER4", true, L, 17, []Feat{{Key: "misc_feature", Loc: lrg(0, 3), Quals: q("o8", "a")}, {Key: "misc_feature", Loc: ljn(lrg(6, 8), lrg(12, 14)), Quals: q("o9", "a")}, {Key: "tRNA", Loc: lrg(16, 18), Quals: q("o10", "c")}}),
	}
}

// c15Mixed: the record shares its stream with other records (for infix: the host file). Every command treats the
// records of a stream one by one, so the output of the stream must be the outputs of the single-record runs in order.
func c15Mixed(c c15Case, env cliEnv, what string, main []byte) *Violation {
	others := c15Others(c.L)
	var recs [][]byte
	for _, k := range c.Pre {
		recs = append(recs, others[mod(k, len(others))])
	}
	recs = append(recs, main)
	for _, k := range c.Post {
		recs = append(recs, others[mod(k, len(others))])
	}
	gl := maxInt(c.GuestLen, 1)
	guestRec := c15RecordNamed("GUEST", false, gl, 44, []Feat{{Key: "misc_feature", Loc: lrg(0, gl), Quals: [][]string{{"label", "guest"}}}})
	guestPath, hostPath := filepath.Join(env.dir, "mixed-guest.gb"), filepath.Join(env.dir, "mixed-host.gb")
	os.WriteFile(guestPath, guestRec, 0o644)
	invoke := func(stream []byte) cliResult {
		switch c.Cmd {
		case "insert":
			return env.run(c.argv(c.Locators[0], guestPath), stream, false)
		case "infix":
			os.WriteFile(hostPath, stream, 0o644)
			return env.run(c.argv(c.Locators[0], hostPath), guestRec, false)
		case "extract":
			return env.run(c.argv(c.Locators...), stream, false)
		}
		return env.run(c.argv(c.Locators[0]), stream, false)
	}
	var cat, all []byte
	for _, r := range recs {
		res := invoke(r)
		if res.Exit != 0 {
			skipCase("other-record-rejected")
			return nil
		}
		cat = append(cat, res.Out...)
		all = append(all, r...)
	}
	res := invoke(all)
	if res.Exit != 0 {
		return viol("stream", "%s: a stream of %d records (others %v before, %v after) is rejected (exit %d: %s) although each record alone is accepted", what, len(recs), c.Pre, c.Post, res.Exit, clipStr(res.Stderr, 200))
	}
	if !bytes.Equal(res.Out, cat) {
		i := firstDiff(string(res.Out), string(cat))
		return viol("stream", "%s: the output for a stream of %d records (others %v before, %v after) differs from the outputs of its records one by one at byte %d: stream %q, one by one %q", what, len(recs), c.Pre, c.Post, i, clipStr(string(res.Out[maxInt(0, i-80):]), 240), clipStr(string(cat[maxInt(0, minInt(i, len(cat))-80):]), 240))
	}
	return nil
}

func c15Check(c c15Case) *Violation {
	initPool()
	if c.InPlace {
		c.Twice = false // the in-place run bypasses the wrapper that compares the two halves of a doubled input
	}
	input := c15Record(c)
	seqBytes := idBytes(0, c.L)
	env := newCliEnv().withStdin(mod(c.Sin, 4))
	defer env.remove()
	what := fmt.Sprintf("gts %s %v (L=%d circ=%v flag=%v fasta=%v)", c.Cmd, c.Locators, c.L, c.Circ, c.Flag, c.Fasta)
	if c.Sin != 0 {
		what += " stdin=" + []string{"pipe", "file", "file-at-offset", "terminal+path"}[mod(c.Sin, 4)]
	}
	if len(c.Pre)+len(c.Post) > 0 {
		if v := c15Mixed(c, env, what, input); v != nil {
			return v
		}
	}

	var regions []mRegion
	for _, lt := range c.Locators {
		rr, ok := resolveLocator(lt, c.L, c.Feats)
		if !ok {
			skipCase("locator-outside-domain")
			return nil
		}
		regions = append(regions, rr...)
	}
	run := func(args []string, stdin []byte) ([]outRec, *Violation) {
		res := env.run(args, stdin, false)
		if res.Exit != 0 {
			return nil, viol("exit-status", "%s: exit %d: %s", what, res.Exit, clipStr(res.Stderr, 300))
		}
		recs, errText := parseOutput(res.Out)
		if errText != "" {
			return nil, viol("output-unreadable", "%s: output does not parse: %s\n%s", what, errText, clipStr(string(res.Out), 600))
		}
		if c.Twice && c.Cmd != "infix" {
			// the same record twice in one stream: the locator is applied to each; both halves must be identical
			if len(recs)%2 != 0 {
				return nil, viol("second-record", "%s: %d output records for an input that holds the same record twice", what, len(recs))
			}
			h := len(recs) / 2
			for i := 0; i < h; i++ {
				a, b := recs[i], recs[h+i]
				if !bytes.Equal(a.bytes, b.bytes) || featuresString(a.feats) != featuresString(b.feats) {
					return nil, viol("second-record", "%s: the second copy of the record is treated differently: output %d is %q %s, output %d is %q %s", what, i, a.bytes, featuresString(a.feats), h+i, b.bytes, featuresString(b.feats))
				}
			}
			recs = recs[:h]
		}
		return recs, nil
	}
	if c.Twice && c.Cmd != "infix" {
		input = append(append([]byte{}, input...), input...)
	}
	origSets := map[string][]posStrand{}
	for _, f := range c.Feats {
		origSets[f.label()] = resSet(den(f.Loc))
	}
	switch c.Cmd {
	case "delete":
		recs, v := run(c.argv(c.Locators[0]), input)
		if v != nil {
			return v
		}
		removed := map[int]bool{}
		for _, r := range regions {
			el, _ := r.elems(c.L)
			for _, e := range el {
				removed[e.Pos] = true
			}
		}
		var want []byte
		newPos := map[int]int{}
		for p := 0; p < c.L; p++ {
			if !removed[p] {
				newPos[p] = len(want)
				want = append(want, seqBytes[p])
			}
		}
		if len(recs) != 1 {
			return viol("records", "%s: %d output records", what, len(recs))
		}
		if !bytes.Equal(recs[0].bytes, want) {
			return viol("bytes", "%s: residues %q, want %q (input %q, located %v)", what, recs[0].bytes, want, seqBytes, regionsString(regions))
		}
		if c.Fasta {
			return nil
		}
		got, ok := featureResidues(recs[0].feats)
		if !ok {
			return viol("malformed", "%s: malformed location in the output", what)
		}
		for _, f := range c.Feats {
			var exp []posStrand
			for _, ps := range origSets[f.label()] {
				if !removed[ps.Pos] {
					exp = append(exp, posStrand{newPos[ps.Pos], ps.Rev})
				}
			}
			sort.Slice(exp, func(i, j int) bool {
				if exp[i].Pos != exp[j].Pos {
					return exp[i].Pos < exp[j].Pos
				}
				return !exp[i].Rev && exp[j].Rev
			})
			g, present := got[f.label()]
			if len(exp) == 0 {
				if present && len(g) != 0 {
					return viol("feature", "%s: feature %s lost all residues but denotes %v", what, f.label(), g)
				}
				if !present && !c.Flag && hasResidue(den(f.Loc)) {
					return viol("feature", "%s: feature %s dropped without --erase", what, f.label())
				}
				continue
			}
			if !present {
				return viol("feature", "%s: feature %s (%s) with surviving residues is missing", what, f.label(), f.Loc)
			}
			if fmt.Sprint(g) != fmt.Sprint(exp) {
				return viol("feature", "%s: feature %s (%s) denotes %v, want %v", what, f.label(), f.Loc, g, exp)
			}
		}
		return nil
	case "insert", "infix":
		// the guest stream holds 1 + c.Guests records: every one of them is inserted into the unchanged input
		nG := 1 + c.Guests
		guestLens := make([]int, nG)
		guests := make([][]byte, nG)
		var guestRec []byte
		for g := 0; g < nG; g++ {
			gl := c.GuestLen
			if g > 0 {
				gl = 1 + (c.GuestLen+3*g)%5
			}
			guestLens[g], guests[g] = gl, idBytes(44+7*g, gl)
			guestFeats := []Feat{{Key: "misc_feature", Loc: lrg(0, maxInt(gl, 1)), Quals: [][]string{{"label", "guest"}}}}
			if gl == 0 {
				guestFeats = nil
			}
			guestRec = append(guestRec, c15RecordNamed(fmt.Sprintf("GUEST%d", g), false, gl, 44+7*g, guestFeats)...)
		}
		var recs []outRec
		var v *Violation
		// in place: the output goes to the very file the guest (insert) or the host (infix) was read from
		runIn := func(path string, stdin []byte) ([]outRec, *Violation) {
			if !c.InPlace {
				return run(c.argv(c.Locators[0], path), stdin)
			}
			res := env.run(c.argv("-o", path, c.Locators[0], path), stdin, false)
			if res.Exit != 0 {
				return nil, viol("exit-status", "%s with -o naming the file it reads: exit %d: %s", what, res.Exit, clipStr(res.Stderr, 300))
			}
			data, _ := os.ReadFile(path)
			out, errText := parseOutput(data)
			if errText != "" {
				return nil, viol("output-unreadable", "%s with -o naming the file it reads: the file does not parse afterwards: %s", what, errText)
			}
			return out, nil
		}
		lit := c.Lit && c.Cmd == "insert" && nG == 1 && !c.InPlace && guestLens[0] > 0
		if lit {
			recs, v = run(c.argv(c.Locators[0], "@"+string(guests[0])), input)
		} else if c.Cmd == "insert" {
			path := filepath.Join(env.dir, "guest.gb")
			os.WriteFile(path, guestRec, 0o644)
			recs, v = runIn(path, input)
		} else {
			path := filepath.Join(env.dir, "host.gb")
			os.WriteFile(path, input, 0o644)
			recs, v = runIn(path, guestRec)
		}
		if v != nil {
			return v
		}
		var positions []int
		for _, r := range regions {
			positions = append(positions, r.head())
		}
		sort.Ints(positions)
		count := func(p int) int { // insertions at or before residue p
			k := 0
			for _, q := range positions {
				if q <= p {
					k++
				}
			}
			return k
		}
		if len(recs) != nG {
			return viol("records", "%s: %d output records for %d guest records", what, len(recs), nG)
		}
		for g, rec := range recs {
			gl := guestLens[g]
			var want []byte
			for p := 0; p <= c.L; p++ {
				for _, q := range positions {
					if q == p {
						want = append(want, guests[g]...)
					}
				}
				if p < c.L {
					want = append(want, seqBytes[p])
				}
			}
			if !bytes.Equal(rec.bytes, want) {
				return viol("bytes", "%s: residues %q, want %q (input %q, guest %d of %d %q, 5' positions %v)", what, rec.bytes, want, seqBytes, g+1, nG, guests[g], positions)
			}
			if c.Fasta {
				continue
			}
			got, ok := featureResidues(rec.feats)
			if !ok {
				return viol("malformed", "%s: malformed location in the output", what)
			}
			guestPos := map[int]bool{}
			{
				k := 0
				for p := 0; p <= c.L; p++ {
					for _, q := range positions {
						if q == p {
							for j := 0; j < gl; j++ {
								guestPos[k+j] = true
							}
							k += gl
						}
					}
					k++
				}
			}
			for _, f := range c.Feats {
				var exp []posStrand
				for _, ps := range origSets[f.label()] {
					exp = append(exp, posStrand{ps.Pos + gl*count(ps.Pos), ps.Rev})
				}
				g := got[f.label()]
				if !c.Flag {
					if fmt.Sprint(g) != fmt.Sprint(exp) && !(len(g) == 0 && len(exp) == 0) {
						return viol("feature", "%s: host feature %s (%s) denotes %v, want %v", what, f.label(), f.Loc, g, exp)
					}
					continue
				}
				// embed: the original residues plus, possibly, guest residues
				have := map[posStrand]bool{}
				for _, x := range g {
					have[x] = true
				}
				for _, x := range exp {
					if !have[x] {
						return viol("feature", "%s: host feature %s (%s) lost residue %v (denotes %v)", what, f.label(), f.Loc, x, g)
					}
					delete(have, x)
				}
				for x := range have {
					if !guestPos[x.Pos] {
						return viol("feature", "%s: host feature %s (%s) gained host residue %v", what, f.label(), f.Loc, x)
					}
				}
			}
			if gl > 0 && !lit {
				if n := len(byLabel(rec.feats)["guest"]); n != len(positions) {
					return viol("feature", "%s: %d copies of the guest feature for %d insertions", what, n, len(positions))
				}
			}
		}
		return nil
	case "rotate":
		recs, v := run(c.argv(c.Locators[0]), input)
		if v != nil {
			return v
		}
		if len(recs) != 1 {
			return viol("records", "%s: %d output records", what, len(recs))
		}
		shift := 0
		if len(regions) > 0 {
			shift = mod(regions[0].head(), maxInt(c.L, 1))
		}
		want := append(append([]byte{}, seqBytes[shift:]...), seqBytes[:shift]...)
		if !bytes.Equal(recs[0].bytes, want) {
			return viol("bytes", "%s: residues %q, want %q (first located 5' position %d)", what, recs[0].bytes, want, shift)
		}
		if c.Fasta {
			return nil
		}
		if !recs[0].circ {
			return viol("topology", "%s: output is not circular", what)
		}
		got, ok := featureResidues(recs[0].feats)
		if !ok {
			return viol("malformed", "%s: malformed location in the output", what)
		}
		for _, f := range c.Feats {
			var exp []posStrand
			for _, ps := range origSets[f.label()] {
				exp = append(exp, posStrand{mod(ps.Pos-shift, c.L), ps.Rev})
			}
			sort.Slice(exp, func(i, j int) bool {
				if exp[i].Pos != exp[j].Pos {
					return exp[i].Pos < exp[j].Pos
				}
				return !exp[i].Rev && exp[j].Rev
			})
			if g := got[f.label()]; fmt.Sprint(g) != fmt.Sprint(exp) && !(len(g) == 0 && len(exp) == 0) {
				return viol("feature", "%s: feature %s (%s) denotes %v, want %v", what, f.label(), f.Loc, g, exp)
			}
		}
		return nil
	case "split":
		recs, v := run(c.argv(c.Locators[0]), input)
		if v != nil {
			return v
		}
		// cut positions: distinct; each region contributes one of its ends
		ends := map[int]bool{}
		for _, r := range regions {
			ends[mod(r.head(), c.L+1)] = true
			ends[mod(r.tail(), c.L+1)] = true
		}
		var cat []byte
		var bounds []int
		for _, r := range recs {
			cat = append(cat, r.bytes...)
			bounds = append(bounds, len(cat))
		}
		if len(regions) == 0 {
			if len(recs) != 1 || !bytes.Equal(cat, seqBytes) {
				return viol("bytes", "%s: nothing located but output is %q", what, cat)
			}
			return nil
		}
		start := 0
		if c.Circ {
			// pieces concatenate to the input re-origined at a cut
			if len(cat) != c.L {
				return viol("bytes", "%s: pieces hold %d residues, the record %d (pieces %q)", what, len(cat), c.L, piecesString(recs))
			}
			start = -1
			for s := 0; s < maxInt(c.L, 1); s++ {
				if bytes.Equal(cat, append(append([]byte{}, seqBytes[s:]...), seqBytes[:s]...)) {
					start = s
					break
				}
			}
			if start < 0 {
				return viol("bytes", "%s: pieces %q do not concatenate to a rotation of %q", what, piecesString(recs), seqBytes)
			}
			if !ends[start] && !(start == 0 && ends[c.L]) {
				return viol("cuts", "%s: output starts at %d which is not a located position (located ends %v)", what, start, keysOf(ends))
			}
		} else if !bytes.Equal(cat, seqBytes) {
			return viol("bytes", "%s: pieces %q do not concatenate to %q", what, piecesString(recs), seqBytes)
		}
		// every interior boundary is a located position, none is used twice, and every region is cut
		cutSet := map[int]bool{}
		if c.Circ {
			cutSet[start] = true
		}
		for _, b := range bounds[:len(bounds)-1] {
			p := mod(start+b, maxInt(c.L, 1))
			if !c.Circ {
				p = b
			}
			if !ends[p] && !(p == 0 && ends[c.L]) && !(p == c.L && ends[0]) {
				return viol("cuts", "%s: cut at %d is not a located position (pieces %q, located ends %v)", what, p, piecesString(recs), keysOf(ends))
			}
			if cutSet[p] && c.L > 0 {
				return viol("cuts", "%s: position %d cut twice (pieces %q)", what, p, piecesString(recs))
			}
			cutSet[p] = true
		}
		for _, r := range regions {
			h, tl := mod(r.head(), c.L+1), mod(r.tail(), c.L+1)
			okc := cutSet[h] || cutSet[tl] || (!c.Circ && (h == 0 || h == c.L || tl == 0 || tl == c.L)) || (c.Circ && (cutSet[mod(h, c.L)] || cutSet[mod(tl, c.L)]))
			if !okc {
				return viol("cuts", "%s: located region with ends %d/%d was not cut (cuts %v, pieces %q)", what, h, tl, keysOf(cutSet), piecesString(recs))
			}
		}
		if c.Fasta {
			return nil
		}
		// features: union over the pieces == original
		union := map[string][]Elem{}
		off := 0
		for _, r := range recs {
			for _, f := range r.feats {
				ast, ok := fromGts(f.Loc)
				if !ok || !ast.wellFormed() {
					return viol("malformed", "%s: malformed location in a piece", what)
				}
				for _, e := range den(ast) {
					if !e.Site {
						e.Pos = mod(start+off+e.Pos, maxInt(c.L, 1))
						union[labelOf(f)] = append(union[labelOf(f)], e)
					}
				}
			}
			off += len(r.bytes)
		}
		for _, f := range c.Feats {
			if g := resSet(union[f.label()]); fmt.Sprint(g) != fmt.Sprint(origSets[f.label()]) && !(len(g) == 0 && len(origSets[f.label()]) == 0) {
				return viol("feature", "%s: pieces of feature %s (%s) denote %v, original %v", what, f.label(), f.Loc, g, origSets[f.label()])
			}
		}
		return nil
	case "extract":
		recs, v := run(c.argv(c.Locators...), input)
		if v != nil {
			return v
		}
		// de-duplicate identical regions in order
		type key struct{ s string }
		seen := map[string]bool{}
		var uniq []mRegion
		for _, r := range regions {
			k := fmt.Sprint(r.segs, r.comp, r.mod)
			el, _ := r.elems(c.L)
			k = fmt.Sprint(el, r.head(), r.tail())
			if !seen[k] {
				seen[k] = true
				uniq = append(uniq, r)
			}
		}
		var want [][]byte
		if c.Flag {
			covered := make([]bool, c.L)
			for _, r := range uniq {
				el, _ := r.elems(c.L)
				for _, e := range el {
					covered[e.Pos] = true
				}
			}
			var gaps [][]byte
			for p := 0; p < c.L; {
				if covered[p] {
					p++
					continue
				}
				q := p
				for q < c.L && !covered[q] {
					q++
				}
				gaps = append(gaps, seqBytes[p:q])
				p = q
			}
			for _, g := range gaps {
				if len(gaps) == 1 || len(g) != c.L {
					want = append(want, g)
				}
			}
		} else {
			for _, r := range uniq {
				el, _ := r.elems(c.L)
				if len(uniq) == 1 || len(el) != c.L {
					want = append(want, modelExtract(el, seqBytes))
				}
			}
		}
		if c.Flag {
			// a zero-length located site covers no residue; whether it nevertheless separates two stretches is not
			// settled by the statement: then only the concatenation and the cut positions are checked
			sites := map[int]bool{}
			for _, r := range uniq {
				if el, _ := r.elems(c.L); len(el) == 0 {
					sites[r.head()] = true
				}
				// a bound that falls exactly on the junction of two segments of a multi-segment region is kept by
				// Resize as an empty boundary segment, i.e. as a zero-length site at that junction: same open question
				if len(r.segs) > 1 && r.mod != "" {
					lo, hi := r.bounds()
					acc := 0
					order := r.segs
					if r.comp {
						order = make([][2]int, len(r.segs))
						for i := range r.segs {
							order[i] = r.segs[len(r.segs)-1-i]
						}
					}
					for _, sg := range order[:len(order)-1] {
						acc += sg[1] - sg[0]
						if lo == acc || hi == acc {
							sites[-1-acc] = true
						}
					}
				}
			}
			if len(sites) > 0 {
				skipCase("invert-with-zero-length-site(weaker check)")
				var gotCat, wantCat []byte
				for _, r := range recs {
					gotCat = append(gotCat, r.bytes...)
				}
				for _, w := range want {
					wantCat = append(wantCat, w...)
				}
				if !bytes.Equal(gotCat, wantCat) {
					return viol("bytes", "%s: unlocated residues %q, want %q", what, gotCat, wantCat)
				}
				return nil
			}
		}
		if len(recs) != len(want) {
			return viol("records", "%s: %d output records %q, want %d %q (located %s)", what, len(recs), piecesString(recs), len(want), want, regionsString(regions))
		}
		for i := range want {
			if !bytes.Equal(recs[i].bytes, want[i]) {
				return viol("bytes", "%s: record %d is %q, want %q (located %s)", what, i, recs[i].bytes, want[i], regionsString(regions))
			}
		}
		return nil
	}
	return nil
}

func regionsString(rr []mRegion) string {
	ss := []string{}
	for _, r := range rr {
		ss = append(ss, fmt.Sprintf("%v/comp=%v@%s", r.segs, r.comp, r.mod))
	}
	return strings.Join(ss, " ")
}

func piecesString(recs []outRec) []string {
	out := []string{}
	for _, r := range recs {
		out = append(out, string(r.bytes))
	}
	return out
}

func keysOf(m map[int]bool) []int {
	out := []int{}
	for k := range m {
		out = append(out, k)
	}
	sort.Ints(out)
	return out
}

func c15Classify(c c15Case) (bool, []string) {
	labels := []string{"cmd:" + c.Cmd}
	if c.Circ {
		labels = append(labels, "circular")
	}
	if c.Flag {
		labels = append(labels, "flag")
	}
	if c.Fasta {
		labels = append(labels, "fasta")
	}
	if c.Twice {
		labels = append(labels, "two-records")
	}
	if c.Guests > 0 {
		labels = append(labels, "several-guests")
	}
	if len(c.Pre)+len(c.Post) > 0 {
		labels = append(labels, "mixed-stream")
	}
	if c.Sin != 0 && mod(c.Sin, 4) != 3 {
		labels = append(labels, "stdin-regular-file")
	}
	if mod(c.Sin, 4) == 3 {
		labels = append(labels, "stdin-terminal-input-by-path")
	}
	if c.Lit && c.Cmd == "insert" {
		labels = append(labels, "literal-guest")
	}
	if c.InPlace {
		labels = append(labels, "in-place")
	}
	var regions []mRegion
	for _, lt := range c.Locators {
		rr, ok := resolveLocator(lt, c.L, c.Feats)
		if !ok {
			return false, append(labels, "outside-domain")
		}
		regions = append(regions, rr...)
	}
	labels = append(labels, fmt.Sprintf("sites=%d", minInt(len(regions), 4)))
	nt := len(regions) >= 2
	overlap := false
	for i, a := range regions {
		if a.comp {
			labels = append(labels, "reverse-strand-site")
			nt = true
		}
		ea, _ := a.elems(c.L)
		for j, b := range regions {
			if i >= j {
				continue
			}
			eb, _ := b.elems(c.L)
			for _, x := range ea {
				for _, y := range eb {
					if x.Pos == y.Pos {
						overlap = true
					}
				}
			}
		}
	}
	if overlap {
		labels = append(labels, "overlapping-sites")
	}
	return nt, labels
}

func c15KF(c c15Case, v *Violation) []string { return nil }

var c15Prop = &Prop[c15Case]{ID: "C15", Check: c15Check, Classify: c15Classify, KF: c15KF}

func init() { registerReplay(c15Prop) }

func c15Gen(t *rapid.T) c15Case {
	L := drawLen(t, 20, 60, "L")
	c := c15Case{Cmd: rapid.SampledFrom([]string{"delete", "insert", "infix", "split", "rotate", "extract", "extract"}).Draw(t, "cmd"),
		L: L, Circ: rapid.Bool().Draw(t, "circ"), Flag: rapid.IntRange(0, 2).Draw(t, "flag") == 0, Fasta: rapid.IntRange(0, 5).Draw(t, "fasta") == 0,
		GuestLen: drawCount(t, 1, 5, 300, "guestlen"), Twice: rapid.IntRange(0, 2).Draw(t, "twice") == 0}
	if c.Cmd == "insert" || c.Cmd == "infix" {
		c.Guests = rapid.SampledFrom([]int{0, 0, 1, 2, 3}).Draw(t, "guests")
		c.InPlace = rapid.IntRange(0, 4).Draw(t, "inplace") == 0
	}
	c.Sin = rapid.SampledFrom([]int{0, 0, 0, 0, 1, 2, 3}).Draw(t, "sin")
	c.Lit = c.Cmd == "insert" && rapid.IntRange(0, 3).Draw(t, "lit") == 0
	c.Long = rapid.IntRange(0, 2).Draw(t, "long") == 0
	if rapid.IntRange(0, 3).Draw(t, "mixed") == 0 {
		c.Pre = rapid.SliceOfN(rapid.IntRange(0, 4), 0, 2).Draw(t, "pre")
		c.Post = rapid.SliceOfN(rapid.IntRange(0, 4), 0, 2).Draw(t, "post")
	}
	// 1..6 labelled features: overlapping, nested, unsorted, complement, joins (disjoint ascending parts)
	n := rapid.IntRange(1, 6).Draw(t, "nfeat")
	keys := []string{"gene", "CDS", "misc_feature", "gene"}
	for i := 0; i < n; i++ {
		l := c12Shape(t, L)
		if l.hasKind("or") {
			l = lrg(0, 1+i)
		}
		// a margin of one base keeps small outward modifiers inside the sequence in most cases
		canon, _ := fromGts(toGts(stripMarkers(l)))
		c.Feats = append(c.Feats, Feat{Key: rapid.SampledFrom(keys).Draw(t, "key"), Loc: canon, Quals: [][]string{{"label", fmt.Sprintf("f%d", i)}, {"gene", rapid.SampledFrom([]string{"a", "b"}).Draw(t, "g")}}})
	}
	// gts sorts tables on most edits; feed it a sorted table so that "table order" is well defined for selectors
	sorted := featsToGts(c.Feats)
	var ff gts.FeatureSlice
	for _, f := range sorted {
		ff = ff.Insert(f)
	}
	c.Feats = nil
	for _, f := range ff {
		ast, _ := fromGts(f.Loc)
		c.Feats = append(c.Feats, Feat{Key: f.Key, Loc: ast, Quals: [][]string(f.Props)})
	}
	genLocator := func() string {
		var spec string
		switch rapid.IntRange(0, 6).Draw(t, "spec") {
		case 0:
			spec = fmt.Sprint(rapid.IntRange(1, L).Draw(t, "p"))
		case 1:
			a := rapid.IntRange(1, L).Draw(t, "a")
			spec = fmt.Sprintf("%d..%d", a, rapid.IntRange(a, L).Draw(t, "b"))
		case 2:
			a := rapid.IntRange(1, L).Draw(t, "a")
			spec = fmt.Sprintf("complement(%d..%d)", a, rapid.IntRange(a, L).Draw(t, "b"))
		default:
			spec = rapid.SampledFrom([]string{"gene", "CDS", "misc_feature", "/gene=a", "gene/gene=b", "/label=f0", "/label=f[12]", "tRNA"}).Draw(t, "sel")
		}
		mod := rapid.SampledFrom([]string{"", "", "@^", "@$", "@^..^+1", "@$-1..$", "@^-1..$", "@^..$+1", "@^+1..$"}).Draw(t, "mod")
		if rapid.IntRange(0, 2).Draw(t, "freemod") == 0 {
			// offsets of any size that fits: inside a multi-segment feature they land in any segment
			k1 := drawCount(t, 0, 24, 300, "k1")
			k2 := drawCount(t, 0, 24, 300, "k2")
			mod = fmt.Sprintf(rapid.SampledFrom([]string{"@^+%[1]d", "@$-%[1]d", "@^..^+%[1]d", "@$-%[1]d..$", "@^+%[1]d..^+%[3]d", "@$-%[3]d..$-%[1]d", "@^+%[1]d..$-%[2]d", "@^+%[1]d..$", "@^..$-%[2]d"}).Draw(t, "modform"), minInt(k1, k2), k2, maxInt(k1, k2))
		}
		return spec + mod
	}
	c.Locators = []string{genLocator()}
	if c.Cmd == "extract" && rapid.IntRange(0, 2).Draw(t, "two") == 0 {
		c.Locators = append(c.Locators, genLocator())
	}
	return c
}

func TestC15(t *testing.T) {
	st := newStats("C15")
	defer st.flush()
	initPool()
	// fixed scenarios: overlapping, nested, duplicate and reverse-strand sites for every command
	e := enumPart(t, c15Prop, st, "fixed-scenarios")
	feats := []Feat{
		{Key: "gene", Loc: lrg(4, 20), Quals: [][]string{{"label", "f0"}, {"gene", "a"}}},
		{Key: "CDS", Loc: ljn(lrg(4, 10), lrg(14, 20)), Quals: [][]string{{"label", "f1"}, {"gene", "a"}}},
		{Key: "misc_feature", Loc: lrg(16, 34), Quals: [][]string{{"label", "f2"}, {"gene", "b"}}},
		{Key: "gene", Loc: lco(lrg(30, 48)), Quals: [][]string{{"label", "f3"}, {"gene", "b"}}},
		{Key: "CDS", Loc: lco(lrg(30, 48)), Quals: [][]string{{"label", "f4"}, {"gene", "b"}}},
		{Key: "gene", Loc: lrg(40, 56), Quals: [][]string{{"label", "f5"}, {"gene", "c"}}},
		{Key: "misc_feature", Loc: lco(lrg(0, 9)), Quals: [][]string{{"label", "f6"}, {"gene", "c"}}},
	}
	for _, cmd := range []string{"delete", "insert", "infix", "split", "rotate", "extract"} {
		for _, loc := range []string{"/gene=c", "/gene=[bc]", "/label=f[05]", "/label=f[26]", "gene", "CDS", "/gene=b", "/gene=a", "misc_feature", "10", "10..20", "complement(10..20)", "gene@^", "gene@$", "CDS@^..^+1", "tRNA", "@^", "/label=f[34]", "/label=f[34]@^"} {
			for _, circ := range []bool{false, true} {
				for _, flag := range []bool{false, true} {
					if flag && (cmd == "split" || cmd == "rotate") {
						continue
					}
					if !e.try(c15Case{Cmd: cmd, L: 56, Circ: circ, Feats: feats, Locators: []string{loc}, Flag: flag, GuestLen: 3, Twice: circ != flag, Long: circ}) {
						return
					}
					if (cmd == "insert" || cmd == "infix") && !e.try(c15Case{Cmd: cmd, L: 56, Circ: circ, Feats: feats, Locators: []string{loc}, Flag: flag, GuestLen: 3, Guests: 2, Twice: circ == flag}) {
						return
					}
					if (cmd == "insert" || cmd == "infix") && circ && !e.try(c15Case{Cmd: cmd, L: 56, Circ: circ, Feats: feats, Locators: []string{loc}, Flag: flag, GuestLen: 3, InPlace: true}) {
						return
					}
				}
			}
		}
	}
	e.done(true)
	// mixed streams: the record between / before / after records with other tables, other lengths or no table at all
	ex := enumPart(t, c15Prop, st, "mixed-streams")
	for _, cmd := range []string{"delete", "insert", "infix", "split", "rotate", "extract"} {
		for _, loc := range []string{"gene", "CDS", "/gene=c", "/gene=[bc]", "/label=f[05]", "misc_feature", "tRNA", "10..20", "@^", "CDS@^..^+1", "gene@$"} {
			for k, pp := range [][2][]int{{{0}, nil}, {nil, {0}}, {{3}, {0}}, {{1, 2}, {4}}, {nil, {3, 0}}, {{4, 0}, {1}}, {{2}, {2}}} {
				flag := k%2 == 1 && cmd != "split" && cmd != "rotate"
				if !ex.try(c15Case{Cmd: cmd, L: 56, Circ: k%3 == 0, Feats: feats, Locators: []string{loc}, Flag: flag, GuestLen: 3, Pre: pp[0], Post: pp[1]}) {
					return
				}
			}
		}
	}
	ex.done(true)
	// multi-segment scenarios: features of three and four segments (short inner segments, either strand) located with
	// modifiers whose bounds fall into every segment and onto every junction
	em := enumPart(t, c15Prop, st, "multi-segment-scenarios")
	mfeats := []Feat{
		{Key: "CDS", Loc: ljn(lrg(0, 20), lrg(30, 35), lrg(40, 60)), Quals: [][]string{{"label", "m0"}, {"gene", "a"}}},
		{Key: "mRNA", Loc: lco(ljn(lrg(2, 9), lrg(12, 14), lrg(20, 23), lrg(44, 58))), Quals: [][]string{{"label", "m1"}, {"gene", "b"}}},
	}
	// a trans-spliced feature (two complemented parts in a row: a compound inside a compound) with gaps between its parts
	tfeats := []Feat{
		{Key: "misc_RNA", Loc: ljn(lrg(2, 8), lco(lrg(50, 56)), lco(lrg(30, 36))), Quals: [][]string{{"label", "t0"}, {"gene", "t"}}},
		{Key: "misc_feature", Loc: lrg(40, 44), Quals: [][]string{{"label", "t1"}, {"note", "in the gap"}}},
	}
	for i := range tfeats {
		tfeats[i].Loc, _ = fromGts(toGts(tfeats[i].Loc))
	}
	// (only the commands whose result does not depend on the strand of the parts: the harness's region model reads a
	// location as one strand; delete removes the union, extract -v emits the unlocated stretches)
	for _, tc := range []c15Case{{Cmd: "delete"}, {Cmd: "delete", Flag: true}, {Cmd: "extract", Flag: true}} {
		tc.L, tc.Feats, tc.Locators, tc.GuestLen = 64, tfeats, []string{"misc_RNA"}, 2
		if !em.try(tc) {
			return
		}
	}
	var mods []string
	for _, k := range []int{0, 1, 5, 7, 9, 12, 19, 20, 21, 24, 25, 26, 30, 44} {
		mods = append(mods, fmt.Sprintf("@^+%d", k), fmt.Sprintf("@$-%d", k), fmt.Sprintf("@^..^+%d", k), fmt.Sprintf("@$-%d..$", k), fmt.Sprintf("@^+%d..$-1", k))
	}
	for _, cmd := range []string{"delete", "insert", "split", "rotate", "extract"} {
		for _, key := range []string{"CDS", "mRNA"} {
			for _, m := range mods {
				if !em.try(c15Case{Cmd: cmd, L: 64, Circ: cmd == "rotate" || cmd == "split", Feats: mfeats, Locators: []string{key + m}, GuestLen: 2}) {
					return
				}
			}
		}
	}
	em.done(true)
	n := pick(1600, 32000) / shards()
	rapidPart(t, c15Prop, st, "rapid", maxInt(n, 10), c15Gen)
	if t.Failed() {
		return
	}
	rapidLargePart(t, c15Prop, st, maxInt(pick(240, 4800)/shards(), 5), c15Gen)
	st.note("%d gts executions in this shard", cliExecs)
}
