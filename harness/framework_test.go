package harness

// Shared machinery: seeds, statistics, case files, known findings, panic capture.
// Every property file defines a Case type (plain JSON), a generator, a pure check
// function and a classifier, and registers a replay decoder.

import (
	"bytes"
	"encoding/binary"
	"encoding/json"
	"flag"
	"fmt"
	"hash/fnv"
	"os"
	"path/filepath"
	"runtime"
	"sort"
	"strconv"
	"strings"
	"sync"
	"testing"

	"pgregory.net/rapid"
)

// ---------------------------------------------------------------------------
// environment

func envInt(name string, def int) int {
	if s := os.Getenv(name); s != "" {
		if v, err := strconv.Atoi(s); err == nil {
			return v
		}
	}
	return def
}

func tier() string {
	if os.Getenv("VERIF_TIER") == "thorough" {
		return "thorough"
	}
	return "quick"
}

func thorough() bool { return tier() == "thorough" }

func shard() int  { return envInt("VERIF_SHARD", 0) }
func shards() int { return envInt("VERIF_SHARDS", 1) }

func outDir() string {
	if d := os.Getenv("VERIF_OUT"); d != "" {
		return d
	}
	return os.TempDir()
}

// pick returns q in the quick tier and th in the thorough tier.
func pick(q, th int) int {
	if thorough() {
		return th
	}
	return q
}

func splitmix(x uint64) uint64 {
	x += 0x9e3779b97f4a7c15
	x = (x ^ (x >> 30)) * 0xbf58476d1ce4e5b9
	x = (x ^ (x >> 27)) * 0x94d049bb133111eb
	return x ^ (x >> 31)
}

func hashString(s string) uint64 {
	h := fnv.New64a()
	h.Write([]byte(s))
	return h.Sum64()
}

// derivedSeed mixes VERIF_SEED, the property id, the part name and the shard number.
// rapid treats seed 0 as "random", so the result is forced odd.
func derivedSeed(id, part string) uint64 {
	base := uint64(envInt("VERIF_SEED", 1))
	x := splitmix(base ^ splitmix(hashString(id+"/"+part)) ^ splitmix(uint64(shard())+0x51ed))
	return x | 1
}

// ---------------------------------------------------------------------------
// violations and panics

// Violation describes one failed evaluation of a property.
type Violation struct {
	Kind string `json:"kind"` // short class used by known-finding matching, e.g. "bytes", "denotation", "panic"
	Msg  string `json:"msg"`
	Site string `json:"site,omitempty"` // for panics: top gts frame
}

func viol(kind, format string, args ...interface{}) *Violation {
	return &Violation{Kind: kind, Msg: fmt.Sprintf(format, args...)}
}

// PanicInfo is what guard() captured from a panic inside the code under test.
type PanicInfo struct {
	Value string
	Site  string // first frame inside github.com/go-gts/gts (function name)
	Stack string
}

// guard runs f (which calls into gts) and converts a panic into a PanicInfo. Only calls into
// the code under test go through guard, so a bug in the harness itself still crashes loudly.
func guard(f func()) (pi *PanicInfo) {
	defer func() {
		if r := recover(); r != nil {
			pcs := make([]uintptr, 64)
			n := runtime.Callers(2, pcs)
			frames := runtime.CallersFrames(pcs[:n])
			site := ""
			var sb strings.Builder
			for {
				fr, more := frames.Next()
				fmt.Fprintf(&sb, "%s\n\t%s:%d\n", fr.Function, fr.File, fr.Line)
				if site == "" && (strings.HasPrefix(fr.Function, "github.com/go-gts/gts") || strings.HasPrefix(fr.Function, "github.com/go-pars/pars")) {
					site = fr.Function
				}
				if !more {
					break
				}
			}
			if site == "" {
				site = "unknown"
			}
			pi = &PanicInfo{Value: fmt.Sprint(r), Site: site, Stack: sb.String()}
		}
	}()
	f()
	return nil
}

func panicViolation(where string, pi *PanicInfo) *Violation {
	return &Violation{Kind: "panic", Msg: fmt.Sprintf("%s panicked: %s (at %s)", where, pi.Value, pi.Site), Site: pi.Site}
}

// ---------------------------------------------------------------------------
// known findings

// KFEntry is one line of /verif/known_findings.txt.
type KFEntry struct {
	State    string // "open" or "fixed"
	Property string
	Sig      string
	Witness  string
	Text     string
}

var (
	kfOnce    sync.Once
	kfEntries []KFEntry
)

func kfPath() string {
	if p := os.Getenv("VERIF_KF"); p != "" {
		return p
	}
	return "/verif/known_findings.txt"
}

func loadKF() []KFEntry {
	kfOnce.Do(func() {
		data, err := os.ReadFile(kfPath())
		if err != nil {
			return
		}
		for _, line := range strings.Split(string(data), "\n") {
			line = strings.TrimSpace(line)
			if line == "" || strings.HasPrefix(line, "#") {
				continue
			}
			var e KFEntry
			switch {
			case strings.HasPrefix(line, "open:"):
				e.State = "open"
				line = strings.TrimSpace(line[5:])
			case strings.HasPrefix(line, "fixed:"):
				e.State = "fixed"
				line = strings.TrimSpace(line[6:])
			default:
				continue
			}
			words := strings.Fields(line)
			rest := []string{}
			for _, w := range words {
				switch {
				case strings.HasPrefix(w, "property=") && e.Property == "":
					e.Property = w[9:]
				case strings.HasPrefix(w, "sig=") && e.Sig == "":
					e.Sig = w[4:]
				case strings.HasPrefix(w, "witness=") && e.Witness == "":
					e.Witness = w[8:]
				default:
					rest = append(rest, w)
				}
			}
			e.Text = strings.Join(rest, " ")
			kfEntries = append(kfEntries, e)
		}
	})
	return kfEntries
}

// openSig reports whether an open known-finding entry with this signature exists.
func openSig(sig string) bool {
	for _, e := range loadKF() {
		if e.State == "open" && e.Sig == sig {
			return true
		}
	}
	return false
}

func kfBySig(sig string) *KFEntry {
	for i, e := range loadKF() {
		if e.State == "open" && e.Sig == sig {
			return &loadKF()[i]
		}
	}
	return nil
}

// ---------------------------------------------------------------------------
// statistics

type Stats struct {
	mu          sync.Mutex
	ID          string
	Evaluations int64
	Nontrivial  map[uint64]struct{}
	Labels      map[string]int64
	Samples     []json.RawMessage
	sampleSeen  int64
	KFHits      map[string]int64 // sig -> violating cases attributed to it
	KFMatched   map[string]int64 // sig -> cases whose input matched the predicate (violating or not)
	Parts       map[string]int64 // part -> evaluations
	Exhaustive  map[string]bool  // part -> enumerated completely
	Shortfall   []string
	Notes       []string
	Violations  int64
	kfWitness   map[string][]byte // sig -> smallest diverted case (replay file content)
}

// curStats is the statistics object of the running test (one property per process invocation).
var curStats *Stats

// skipCase records that a check function declined to judge a case (outside the stated domain).
func skipCase(reason string) {
	if curStats != nil {
		curStats.label("skipped:" + reason)
	}
}

func newStats(id string) *Stats {
	st := newStats0(id)
	curStats = st
	return st
}

func newStats0(id string) *Stats {
	return &Stats{ID: id, Nontrivial: map[uint64]struct{}{}, Labels: map[string]int64{}, KFHits: map[string]int64{},
		KFMatched: map[string]int64{}, Parts: map[string]int64{}, Exhaustive: map[string]bool{}, kfWitness: map[string][]byte{}}
}

func (s *Stats) label(l string) {
	s.mu.Lock()
	s.Labels[l]++
	s.mu.Unlock()
}

func (s *Stats) note(format string, args ...interface{}) {
	s.mu.Lock()
	s.Notes = append(s.Notes, fmt.Sprintf(format, args...))
	s.mu.Unlock()
}

// record counts one evaluated case.
func (s *Stats) record(part string, caseJSON []byte, nontrivial bool, labels []string) {
	s.mu.Lock()
	defer s.mu.Unlock()
	s.Evaluations++
	s.Parts[part]++
	for _, l := range labels {
		s.Labels[l]++
	}
	if nontrivial {
		h := fnv.New64a()
		h.Write(caseJSON)
		s.Nontrivial[h.Sum64()] = struct{}{}
		// deterministic reservoir: keep the first 3 and then every case whose hash is small enough
		s.sampleSeen++
		if len(s.Samples) < 3 || (len(s.Samples) < 10 && h.Sum64()%997 == 0) {
			var tagged json.RawMessage
			tagged = append(tagged, []byte(fmt.Sprintf(`{"part":%q,"case":`, part))...)
			tagged = append(tagged, caseJSON...)
			tagged = append(tagged, '}')
			if len(tagged) < 4000 {
				s.Samples = append(s.Samples, tagged)
			}
		}
	}
}

type statsFile struct {
	ID          string            `json:"id"`
	Shard       int               `json:"shard"`
	Tier        string            `json:"tier"`
	Evaluations int64             `json:"evaluations"`
	Labels      map[string]int64  `json:"labels"`
	Samples     []json.RawMessage `json:"samples"`
	KFHits      map[string]int64  `json:"kf_hits"`
	KFMatched   map[string]int64  `json:"kf_matched"`
	Parts       map[string]int64  `json:"parts"`
	Exhaustive  map[string]bool   `json:"exhaustive"`
	Shortfall   []string          `json:"shortfall"`
	Notes       []string          `json:"notes"`
	Violations  int64             `json:"violations"`
	Distinct    int               `json:"distinct_nontrivial_in_shard"`
}

func (s *Stats) flush() {
	s.mu.Lock()
	defer s.mu.Unlock()
	base := filepath.Join(outDir(), fmt.Sprintf("%s.%d", s.ID, shard()))
	sf := statsFile{ID: s.ID, Shard: shard(), Tier: tier(), Evaluations: s.Evaluations, Labels: s.Labels, Samples: s.Samples,
		KFHits: s.KFHits, KFMatched: s.KFMatched, Parts: s.Parts, Exhaustive: s.Exhaustive, Shortfall: s.Shortfall, Notes: s.Notes,
		Violations: s.Violations, Distinct: len(s.Nontrivial)}
	data, _ := json.MarshalIndent(sf, "", " ")
	os.WriteFile(base+".stats.json", data, 0o644)
	hs := make([]uint64, 0, len(s.Nontrivial))
	for h := range s.Nontrivial {
		hs = append(hs, h)
	}
	sort.Slice(hs, func(i, j int) bool { return hs[i] < hs[j] })
	buf := make([]byte, 8*len(hs))
	for i, h := range hs {
		binary.LittleEndian.PutUint64(buf[8*i:], h)
	}
	os.WriteFile(base+".hashes", buf, 0o644)
	for sig, data := range s.kfWitness {
		os.WriteFile(fmt.Sprintf("%s.kf.%s.json", base, sig), data, 0o644)
	}
}

// ---------------------------------------------------------------------------
// the property runner

// Prop bundles what a property check needs. C must be JSON-serialisable.
type Prop[C any] struct {
	ID       string
	Check    func(c C) *Violation
	Classify func(c C) (nontrivial bool, labels []string)
	// KF returns the signatures of known-finding predicates whose input-side trigger this case
	// matches and which could explain a violation of kind v.Kind. Optional.
	KF func(c C, v *Violation) []string
}

type replayFile struct {
	Property  string          `json:"property"`
	Part      string          `json:"part,omitempty"`
	Violation *Violation      `json:"violation,omitempty"`
	Case      json.RawMessage `json:"case"`
}

func failPath(id string) string {
	return filepath.Join(outDir(), fmt.Sprintf("%s.%d.fail.json", id, shard()))
}

func writeFail(id, part string, cj []byte, v *Violation) {
	data, _ := json.MarshalIndent(replayFile{Property: id, Part: part, Violation: v, Case: cj}, "", " ")
	os.WriteFile(failPath(id), data, 0o644)
}

// eval runs one case: check, known-finding attribution, statistics. It returns a non-nil
// violation only if the case violates and no open known finding explains it.
var (
	poisonCase      []byte
	poisonViolation *Violation
)

func (p *Prop[C]) eval(st *Stats, part string, c C) *Violation {
	cj, err := json.Marshal(c)
	if err != nil {
		panic(fmt.Sprintf("harness: case not serialisable: %v", err))
	}
	// A hang leaves goroutines of the tested code spinning in this process (they also keep writing to go-pars'
	// shared pars.Void sink), so nothing evaluated afterwards is trustworthy: the hanging case is reported as it
	// is and every further evaluation (shrinking) is answered without running the code.
	if poisonCase != nil {
		if bytes.Equal(cj, poisonCase) {
			return poisonViolation
		}
		return nil
	}
	v := p.Check(c)
	if v != nil && v.Kind == "hang" {
		poisonCase, poisonViolation = cj, v
	}
	nontrivial, labels := false, []string(nil)
	if p.Classify != nil {
		// classification may call the code under test (e.g. to see whether a text parses): a panic there must not take
		// the process down before the violation found by Check is recorded
		if pi := guard(func() { nontrivial, labels = p.Classify(c) }); pi != nil {
			nontrivial, labels = false, []string{"classify-panicked"}
			if v == nil {
				v = panicViolation("classifying the case", pi)
			}
		}
	}
	if v != nil && p.KF != nil {
		sigs := []string{}
		for _, sig := range p.KF(c, v) {
			if openSig(sig) {
				sigs = append(sigs, sig)
			}
		}
		if len(sigs) > 0 {
			st.mu.Lock()
			st.KFHits[sigs[0]]++
			if old, ok := st.kfWitness[sigs[0]]; !ok || len(cj) < len(old) {
				data, _ := json.MarshalIndent(replayFile{Property: p.ID, Part: part, Violation: v, Case: cj}, "", " ")
				st.kfWitness[sigs[0]] = data
			}
			st.mu.Unlock()
			// diverted cases are counted as evaluations but not as non-trivial coverage
			st.record(part, cj, false, append(labels, "diverted:"+sigs[0]))
			return nil
		}
	}
	if v != nil {
		st.mu.Lock()
		st.Violations++
		st.mu.Unlock()
		writeFail(p.ID, part, cj, v)
		return v
	}
	st.record(part, cj, nontrivial, labels)
	return nil
}

// rapidPart runs n generated cases of gen through the property.
func rapidPart[C any](t *testing.T, p *Prop[C], st *Stats, part string, n int, gen func(*rapid.T) C) {
	if n <= 0 {
		return
	}
	flag.Set("rapid.checks", strconv.Itoa(n))
	flag.Set("rapid.seed", strconv.FormatUint(derivedSeed(p.ID, part), 10))
	flag.Set("rapid.nofailfile", "true")
	before := st.Parts[part]
	rapid.Check(t, func(rt *rapid.T) {
		c := gen(rt)
		if v := p.eval(st, part, c); v != nil {
			rt.Fatalf("VIOLATION %s/%s [%s]: %s", p.ID, part, v.Kind, v.Msg)
		}
	})
	if got := st.Parts[part] - before; got < int64(n) && !t.Failed() {
		st.Shortfall = append(st.Shortfall, fmt.Sprintf("%s: %d of %d", part, got, n))
	}
}

// enumPart feeds explicitly enumerated cases; the caller marks exhaustiveness. Enumerated parts are
// split across shards by index.
type enumerator[C any] struct {
	t    *testing.T
	p    *Prop[C]
	st   *Stats
	part string
	idx  int64
	stop bool
}

func enumPart[C any](t *testing.T, p *Prop[C], st *Stats, part string) *enumerator[C] {
	return &enumerator[C]{t: t, p: p, st: st, part: part}
}

// try evaluates the case if it belongs to this shard; returns false once a violation was found.
func (e *enumerator[C]) try(c C) bool {
	if e.stop {
		return false
	}
	e.idx++
	if int(e.idx%int64(shards())) != shard() {
		return true
	}
	if v := e.p.eval(e.st, e.part, c); v != nil {
		e.t.Errorf("VIOLATION %s/%s [%s]: %s", e.p.ID, e.part, v.Kind, v.Msg)
		e.stop = true
		return false
	}
	return true
}

func (e *enumerator[C]) done(exhaustive bool) {
	if !e.stop {
		e.st.Exhaustive[e.part] = exhaustive
	}
}

// ---------------------------------------------------------------------------
// replay

type replayer func(part string, raw json.RawMessage) (*Violation, []string, error)

var replayers = map[string]replayer{}

func registerReplay[C any](p *Prop[C]) {
	replayers[p.ID] = func(part string, raw json.RawMessage) (*Violation, []string, error) {
		var c C
		if err := json.Unmarshal(raw, &c); err != nil {
			return nil, nil, err
		}
		v := p.Check(c)
		var sigs []string
		if v != nil && p.KF != nil {
			for _, sig := range p.KF(c, v) {
				if openSig(sig) {
					sigs = append(sigs, sig)
				}
			}
		}
		return v, sigs, nil
	}
}

// replayOne re-runs a saved case. Returns (violation, attributed known-finding sigs).
func replayOne(path string) (*Violation, []string, string, error) {
	data, err := os.ReadFile(path)
	if err != nil {
		return nil, nil, "", err
	}
	var rf replayFile
	if err := json.Unmarshal(data, &rf); err != nil {
		return nil, nil, "", err
	}
	r, ok := replayers[rf.Property]
	if !ok {
		return nil, nil, rf.Property, fmt.Errorf("no replayer for property %q", rf.Property)
	}
	v, sigs, err := r(rf.Part, rf.Case)
	return v, sigs, rf.Property, err
}

type replayResult struct {
	Path      string     `json:"path"`
	Property  string     `json:"property"`
	Violation *Violation `json:"violation,omitempty"`
	KF        []string   `json:"kf,omitempty"`
	Error     string     `json:"error,omitempty"`
}

// TestReplay re-runs the files listed in VERIF_REPLAY (':'-separated paths) and writes
// $VERIF_OUT/replay.json. It never fails by itself: the driver interprets the results.
func TestReplay(t *testing.T) {
	list := os.Getenv("VERIF_REPLAY")
	if list == "" {
		t.Skip("VERIF_REPLAY not set")
	}
	var results []replayResult
	for _, path := range strings.Split(list, ":") {
		if path == "" {
			continue
		}
		v, sigs, prop, err := replayOne(path)
		rr := replayResult{Path: path, Property: prop, Violation: v, KF: sigs}
		if err != nil {
			rr.Error = err.Error()
		}
		results = append(results, rr)
	}
	data, _ := json.MarshalIndent(results, "", " ")
	if err := os.WriteFile(filepath.Join(outDir(), "replay.json"), data, 0o644); err != nil {
		t.Fatal(err)
	}
}

func mustJSON(v interface{}) []byte {
	data, err := json.Marshal(v)
	if err != nil {
		panic(err)
	}
	return data
}
