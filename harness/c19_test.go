package harness

// C19 — Feature selection and sorted insertion behave as documented for every table.

import (
	"fmt"
	"reflect"
	"regexp"
	"sort"
	"strings"
	"testing"

	"github.com/go-gts/gts"
	"pgregory.net/rapid"
)

type c19Expr struct {
	Op   string    `json:"op"` // sel, key, within, overlap, fwd, rev, and, or, not, true, false
	S    string    `json:"s,omitempty"`
	L    int       `json:"l,omitempty"`
	U    int       `json:"u,omitempty"`
	Args []c19Expr `json:"args,omitempty"`
}

type c19Case struct {
	Mode    string   `json:"mode"` // selector, algebra, insert, order
	Table   []Feat   `json:"table,omitempty"`
	Sel     string   `json:"sel,omitempty"`
	Expr    *c19Expr `json:"expr,omitempty"`
	Inserts []Feat   `json:"inserts,omitempty"`
	Triple  []Loc    `json:"triple,omitempty"`
	// cli-select: gts select [-v] [-s strand] Sels... on a record that holds Table
	Sels   []string `json:"sels,omitempty"`
	More   int      `json:"more,omitempty"` // cli-select: further records in the stream (thinned-out copies of the table)
	Invert bool     `json:"invert,omitempty"`
	Strand string   `json:"strand,omitempty"`
}

// ---- reference selector -------------------------------------------------------------------

// refSplitSelector splits at '/' characters that are not escaped by a backslash.
func refSplitSelector(s string) []string {
	var parts []string
	cur := strings.Builder{}
	for i := 0; i < len(s); i++ {
		if s[i] == '\\' && i+1 < len(s) {
			cur.WriteByte(s[i])
			cur.WriteByte(s[i+1])
			i++
			continue
		}
		if s[i] == '/' {
			parts = append(parts, cur.String())
			cur.Reset()
			continue
		}
		cur.WriteByte(s[i])
	}
	return append(parts, cur.String())
}

type refClause struct {
	name string
	re   *regexp.Regexp
	raw  string
}

// refSelector parses the documented grammar [key][/[name][=regexp]]... ; err for an invalid regexp.
func refSelector(s string) (key string, clauses []refClause, err error) {
	parts := refSplitSelector(s)
	key = parts[0]
	// A '/' at the very end is taken as a terminator, not as the start of one more (empty) clause: the grammar of the
	// statement does not settle it and gts reads it that way ("gene/" is "gene", "gene//" has one empty clause).
	if n := len(parts); n > 1 && parts[n-1] == "" {
		parts = parts[:n-1]
	}
	for _, p := range parts[1:] {
		// a literally empty clause is an unnamed clause with an empty regexp: some qualifier must have some value
		name, raw := p, ""
		if i := strings.IndexByte(p, '='); i >= 0 {
			name, raw = p[:i], p[i+1:]
		}
		re, e := regexp.Compile(raw)
		if e != nil {
			return "", nil, e
		}
		clauses = append(clauses, refClause{name, re, raw})
	}
	return key, clauses, nil
}

func refAccept(key string, clauses []refClause, f Feat) bool {
	if key != "" && f.Key != key {
		return false
	}
	for _, c := range clauses {
		ok := false
		for _, row := range f.Quals {
			if c.name != "" && row[0] != c.name {
				continue
			}
			if c.name != "" && c.raw == "" {
				ok = true // any value (the qualifier merely has to be present)
				break
			}
			for _, v := range row[1:] {
				if c.re.MatchString(v) {
					ok = true
				}
			}
		}
		if !ok {
			return false
		}
	}
	return true
}

// ---- reference for the other filters ------------------------------------------------------------

func refWithin(l Loc, lo, hi int) bool {
	for _, x := range l.leaves() {
		switch x.K {
		case "pt":
			if !(lo <= x.A && x.A+1 <= hi) {
				return false
			}
		case "bt":
			if !(lo <= x.A && x.A <= hi) {
				return false
			}
		default:
			if !(lo <= x.A && x.B <= hi) {
				return false
			}
		}
	}
	return true
}

func refOverlap(l Loc, lo, hi int) bool {
	for _, x := range l.leaves() {
		switch x.K {
		case "pt":
			if lo <= x.A && x.A < hi {
				return true
			}
		case "bt":
			if lo < x.A && x.A < hi {
				return true
			}
		default:
			if x.A < hi && lo < x.B {
				return true
			}
		}
	}
	return false
}

func refStrand(l Loc) (fwd, rev bool) {
	fwd, rev = true, true
	for _, e := range den(l) {
		if e.Rev {
			fwd = false
		} else {
			rev = false
		}
	}
	return
}

func (e c19Expr) build() (gts.Filter, error) {
	switch e.Op {
	case "sel":
		return gts.Selector(e.S)
	case "key":
		return gts.Key(e.S), nil
	case "within":
		return gts.Within(e.L, e.U), nil
	case "overlap":
		return gts.Overlap(e.L, e.U), nil
	case "fwd":
		return gts.ForwardStrand, nil
	case "rev":
		return gts.ReverseStrand, nil
	case "true":
		return gts.TrueFilter, nil
	case "false":
		return gts.FalseFilter, nil
	case "not":
		f, err := e.Args[0].build()
		if err != nil {
			return nil, err
		}
		return gts.Not(f), nil
	default:
		ff := make([]gts.Filter, len(e.Args))
		for i, a := range e.Args {
			f, err := a.build()
			if err != nil {
				return nil, err
			}
			ff[i] = f
		}
		if e.Op == "and" {
			return gts.And(ff...), nil
		}
		return gts.Or(ff...), nil
	}
}

func (e c19Expr) ref(f Feat) bool {
	switch e.Op {
	case "sel":
		k, cl, _ := refSelector(e.S)
		return refAccept(k, cl, f)
	case "key":
		return e.S == "" || f.Key == e.S
	case "within":
		return refWithin(f.Loc, e.L, e.U)
	case "overlap":
		return refOverlap(f.Loc, e.L, e.U)
	case "fwd":
		x, _ := refStrand(f.Loc)
		return x
	case "rev":
		_, x := refStrand(f.Loc)
		return x
	case "true":
		return true
	case "false":
		return false
	case "not":
		return !e.Args[0].ref(f)
	case "and":
		for _, a := range e.Args {
			if !a.ref(f) {
				return false
			}
		}
		return true
	default:
		for _, a := range e.Args {
			if a.ref(f) {
				return true
			}
		}
		return false
	}
}

func featKeyOf(f gts.Feature) string {
	ast, _ := fromGts(f.Loc)
	return fmt.Sprintf("%s|%s|%v", f.Key, ast, f.Props)
}

// c19CliSelect: the features `gts select` writes are those of the table, in table order, for which
// strand-ok AND (key is source OR (some selector accepts XOR -v)); with no selector everything "matches".
func c19CliSelect(c c19Case) *Violation {
	table := make([]Feat, len(c.Table))
	for i, f := range c.Table {
		f.Quals = append([][]string{{"label", fmt.Sprintf("L%d", i)}}, f.Quals...)
		table[i] = f
	}
	args := []string{"select", "--no-cache"}
	long := len(c.Table)%2 == 1 // options in their long spelling for every other table size
	if c.Invert {
		args = append(args, map[bool]string{false: "-v", true: "--invert-match"}[long])
	}
	if c.Strand != "" {
		if long {
			args = append(args, "--strand", c.Strand)
		} else {
			args = append(args, "-s", c.Strand)
		}
	}
	args = append(args, c.Sels...)
	what := fmt.Sprintf("gts %q on %s", args, tableString(featsToGts(table)))
	env := newCliEnv()
	defer env.remove()
	// the stream holds the record and c.More further records with thinned-out copies of its table (record k lacks every
	// feature whose index is a multiple of k+2; record 3 has no table at all): each is selected from by itself
	tables := [][]Feat{table}
	for k := 1; k <= c.More; k++ {
		var sub []Feat
		for i, f := range table {
			if i%(k+1) != 0 && k < 3 {
				sub = append(sub, f)
			}
		}
		tables = append(tables, sub)
	}
	var stream []byte
	for k, tb := range tables {
		stream = append(stream, smallRecord(fmt.Sprintf("SEL%d", k), false, 12, tb)...)
	}
	res := env.run(args, stream, false)
	if res.Exit != 0 {
		return viol("cli-exit", "%s: exit %d (%s)", what, res.Exit, clipStr(res.Stderr, 200))
	}
	recs, errText, pi := readGenBank(string(res.Out))
	if pi != nil || errText != "" || len(recs) != len(tables) {
		return viol("cli-output", "%s: output is not %d GenBank record(s) (%d records, error %q)", what, len(tables), len(recs), errText)
	}
	for k, tb := range tables {
		var want []string
		for _, f := range tb {
			fwd, rev := refStrand(f.Loc)
			if (c.Strand == "forward" && !fwd) || (c.Strand == "reverse" && !rev) {
				continue
			}
			hit := len(c.Sels) == 0
			for _, sel := range c.Sels {
				key, clauses, err := refSelector(sel)
				if err != nil {
					panic("harness: cli-select drew an invalid selector " + sel)
				}
				if refAccept(key, clauses, f) {
					hit = true
				}
			}
			if f.Key == "source" || hit != c.Invert {
				want = append(want, f.Key+":"+f.label())
			}
		}
		var got []string
		for _, f := range recs[k].Features() {
			got = append(got, f.Key+":"+labelOf(f))
		}
		if fmt.Sprint(got) != fmt.Sprint(want) {
			return viol("cli-select", "%s: record %d of %d wrote %v, want %v", what, k+1, len(tables), got, want)
		}
	}
	return nil
}

func c19Check(c c19Case) *Violation {
	if c.Mode == "cli-select" {
		return c19CliSelect(c)
	}
	switch c.Mode {
	case "history":
		// a selector means the same whatever the process compiled before: c.More other selectors (each with a regexp
		// of its own) are built between two uses of c.Sel; the filter made before and the one made after both follow
		// the documented semantics
		key, clauses, rerr := refSelector(c.Sel)
		if rerr != nil {
			return nil
		}
		var f1, f2 gts.Filter
		var e1, e2 error
		if pi := guard(func() {
			f1, e1 = gts.Selector(c.Sel)
			for i := 0; i < c.More; i++ {
				g, err := gts.Selector(fmt.Sprintf("gene/note=^w%d[ab]?$/a=%d", i, i%7))
				if err == nil {
					g(gts.NewFeature("gene", gts.Range(0, 1), gts.Props{{"note", fmt.Sprintf("w%d", i)}}))
				}
			}
			f2, e2 = gts.Selector(c.Sel)
		}); pi != nil {
			return panicViolation(fmt.Sprintf("Selector(%q) around %d other selectors", c.Sel, c.More), pi)
		}
		if e1 != nil || e2 != nil {
			return viol("selector-error", "Selector(%q): errors %v / %v for a selector the reference parser accepts", c.Sel, e1, e2)
		}
		for _, f := range c.Table {
			gf := f.toGts()
			want := refAccept(key, clauses, f)
			var g1, g2 bool
			if pi := guard(func() { g1, g2 = f1(gf), f2(gf) }); pi != nil {
				return panicViolation(fmt.Sprintf("Selector(%q) applied", c.Sel), pi)
			}
			if g1 != want || g2 != want {
				return viol("selector-history", "Selector(%q) on key=%q qualifiers=%v: built first it returns %v, built again after %d other selectors it returns %v; documented semantics give %v", c.Sel, f.Key, f.Quals, g1, c.More, g2, want)
			}
		}
		return nil
	case "selector":
		key, clauses, rerr := refSelector(c.Sel)
		var filter gts.Filter
		var gerr error
		if pi := guard(func() { filter, gerr = gts.Selector(c.Sel) }); pi != nil {
			return panicViolation(fmt.Sprintf("Selector(%q)", c.Sel), pi)
		}
		if (rerr != nil) != (gerr != nil) {
			return viol("selector-error", "Selector(%q): error %v, the reference parser says %v", c.Sel, gerr, rerr)
		}
		if gerr != nil {
			return nil
		}
		for _, f := range c.Table {
			gf := f.toGts()
			var got bool
			if pi := guard(func() { got = filter(gf) }); pi != nil {
				return panicViolation(fmt.Sprintf("Selector(%q) applied", c.Sel), pi)
			}
			if want := refAccept(key, clauses, f); got != want {
				return viol("selector", "Selector(%q) on feature key=%q qualifiers=%v returns %v, documented semantics give %v", c.Sel, f.Key, f.Quals, got, want)
			}
		}
		// Filter: exactly the accepted features in table order, unaltered, original untouched
		table := featsToGts(c.Table)
		snapshot := featsToGts(c.Table)
		var out gts.FeatureSlice
		if pi := guard(func() {
			out = table.Filter(filter)
			// judged after other tables were filtered (a result must not live in memory the next call re-uses)
			table.Filter(gts.TrueFilter)
			gts.FeatureSlice{gts.NewFeature("x", gts.Range(0, 1), gts.Props{{"note", "other"}}), gts.NewFeature("y", gts.Point(2), nil)}.Filter(gts.TrueFilter)
		}); pi != nil {
			return panicViolation("FeatureSlice.Filter", pi)
		}
		var want gts.FeatureSlice
		for i, f := range c.Table {
			if refAccept(key, clauses, f) {
				want = append(want, snapshot[i])
			}
		}
		if len(out) != len(want) {
			return viol("filter", "Filter(%q) kept %d features, want %d", c.Sel, len(out), len(want))
		}
		for i := range out {
			if !reflect.DeepEqual(out[i], want[i]) {
				return viol("filter", "Filter(%q): element %d is %v, want %v", c.Sel, i, out[i], want[i])
			}
		}
		if !reflect.DeepEqual(table, snapshot) {
			return viol("filter", "Filter(%q) altered the table", c.Sel)
		}
		return nil
	case "algebra":
		var filter gts.Filter
		var err error
		if pi := guard(func() { filter, err = c.Expr.build() }); pi != nil {
			return panicViolation("building filter", pi)
		}
		if err != nil {
			return viol("algebra", "filter expression failed to build: %v", err)
		}
		for _, f := range c.Table {
			gf := f.toGts()
			var got bool
			if pi := guard(func() { got = filter(gf) }); pi != nil {
				return panicViolation("applying filter", pi)
			}
			if want := c.Expr.ref(f); got != want {
				data := mustJSON(c.Expr)
				return viol("algebra", "filter %s on feature %s %s %v returns %v, want %v", data, f.Key, f.Loc, f.Quals, got, want)
			}
		}
		return nil
	case "insert":
		var table gts.FeatureSlice
		for step, f := range c.Inserts {
			before := make(gts.FeatureSlice, len(table))
			copy(before, table)
			gf := f.toGts()
			var after gts.FeatureSlice
			// hand Insert a copy with exact capacity so that this property is not disturbed by aliasing (C11)
			arg := make(gts.FeatureSlice, len(table))
			copy(arg, table)
			if pi := guard(func() { after = arg.Insert(gf) }); pi != nil {
				return panicViolation("FeatureSlice.Insert", pi)
			}
			if len(after) != len(before)+1 {
				return viol("insert-multiset", "step %d: %d features after inserting into %d", step, len(after), len(before))
			}
			// the same table with room behind its last entry (as a table grown by appends has) receives two different
			// features: neither the table nor the first result may read differently afterwards
			{
				roomy := make(gts.FeatureSlice, len(table), len(table)+4)
				copy(roomy, table)
				other := gts.NewFeature("misc_feature", gts.Range(0, 1), gts.Props{{"note", "other"}})
				var r1 gts.FeatureSlice
				var s1 string
				if pi := guard(func() {
					r1 = roomy.Insert(gf)
					s1 = tableString(r1)
					roomy.Insert(other)
				}); pi != nil {
					return panicViolation("FeatureSlice.Insert (roomy table)", pi)
				}
				if now := tableString(r1); now != s1 {
					return viol("insert-later", "step %d: the table returned by Insert read %s and reads %s after another feature was inserted into the same table", step, s1, now)
				}
				if now := tableString(roomy); now != tableString(before) {
					return viol("insert-later", "step %d: the table that received two insertions read %s and now reads %s", step, tableString(before), now)
				}
			}
			// multiset and relative order of the old features
			cnt := map[string]int{}
			for _, x := range after {
				cnt[featKeyOf(x)]++
			}
			cnt[featKeyOf(gf)]--
			for _, x := range before {
				cnt[featKeyOf(x)]--
			}
			for k, n := range cnt {
				if n != 0 {
					return viol("insert-multiset", "step %d: feature %s count off by %d after Insert", step, k, n)
				}
			}
			// old features keep their relative order: "after" minus one occurrence of the new feature == before
			removed := false
			j := 0
			for _, x := range after {
				if j < len(before) && reflect.DeepEqual(x, before[j]) {
					j++
					continue
				}
				if !removed && reflect.DeepEqual(x, gf) {
					removed = true
					continue
				}
				return viol("insert-order", "step %d: relative order of existing features changed: before %s after %s", step, tableString(before), tableString(after))
			}
			// sources first, others non-decreasing
			seenOther := false
			for i, x := range after {
				if x.Key == "source" {
					if seenOther {
						return viol("insert-source", "step %d: source feature at %d after a non-source feature: %s", step, i, tableString(after))
					}
					continue
				}
				if seenOther && after[i-1].Key != "source" && gts.LocationLess(x.Loc, after[i-1].Loc) {
					return viol("insert-sorted", "step %d: inserting %s leaves %s before %s although the latter is less: %s", step, gf.Loc, after[i-1].Loc, x.Loc, tableString(after))
				}
				seenOther = true
			}
			table = after
		}
		return nil
	case "order":
		locs := make([]gts.Location, len(c.Triple))
		for i, l := range c.Triple {
			locs[i] = toGts(l)
		}
		less := func(a, b gts.Location) (r bool, pi *PanicInfo) {
			pi = guard(func() { r = gts.LocationLess(a, b) })
			return
		}
		// the order depends on where locations lie relative to each other, not on how far from the origin they are:
		// the same locations moved by 2^31-2, 2^31, 2^32+7, 2^53 or 2^62 compare the same way
		for _, off := range []int{1<<31 - 2, 1 << 31, 1<<32 + 7, 1 << 53, 1 << 62} {
			for _, x := range c.Triple {
				for _, y := range c.Triple {
					ab, pi := less(toGts(x), toGts(y))
					if pi != nil {
						return panicViolation("LocationLess", pi)
					}
					sab, pi := less(toGts(shiftLoc(x, off)), toGts(shiftLoc(y, off)))
					if pi != nil {
						return panicViolation(fmt.Sprintf("LocationLess of locations moved by %d", off), pi)
					}
					if ab != sab {
						return viol("order-translation", "LocationLess(%s, %s) = %v, but moved by %d: LocationLess(%s, %s) = %v", toGts(x), toGts(y), ab, off, toGts(shiftLoc(x, off)), toGts(shiftLoc(y, off)), sab)
					}
				}
			}
		}
		for i, a := range locs {
			if r, pi := less(a, a); pi != nil {
				return panicViolation("LocationLess", pi)
			} else if r {
				return viol("order-irreflexive", "LocationLess(%s, %s) is true", a, a)
			}
			for j, b := range locs {
				ab, pi := less(a, b)
				if pi != nil {
					return panicViolation("LocationLess", pi)
				}
				ba, _ := less(b, a)
				if i != j && ab && ba {
					return viol("order-asymmetric", "both %s < %s and %s < %s", a, b, b, a)
				}
				for _, cc := range locs {
					bc, _ := less(b, cc)
					ac, _ := less(a, cc)
					if ab && bc && !ac {
						return viol("order-transitive", "%s < %s and %s < %s but not %s < %s", a, b, b, cc, a, cc)
					}
				}
			}
		}
		return nil
	}
	return nil
}

func tableString(ff gts.FeatureSlice) string {
	ss := make([]string, len(ff))
	for i, f := range ff {
		ss[i] = f.Key + ":" + f.Loc.String()
	}
	return "[" + strings.Join(ss, " ") + "]"
}

func c19Classify(c c19Case) (bool, []string) {
	labels := []string{"mode:" + c.Mode}
	switch c.Mode {
	case "selector":
		key, clauses, err := refSelector(c.Sel)
		if err != nil {
			return false, append(labels, "invalid-regexp")
		}
		acc := 0
		for _, f := range c.Table {
			if refAccept(key, clauses, f) {
				acc++
			}
		}
		labels = append(labels, fmt.Sprintf("clauses=%d", len(clauses)))
		for _, cl := range clauses {
			if cl.name == "" {
				labels = append(labels, "unnamed-clause")
			}
			if cl.raw == "" {
				labels = append(labels, "empty-regexp")
			}
		}
		if strings.Contains(c.Sel, `\/`) {
			labels = append(labels, "escaped-slash")
		}
		if acc > 0 && acc < len(c.Table) {
			labels = append(labels, "splits-table")
		}
		return len(clauses) > 0 && len(c.Table) > 0, labels
	case "algebra":
		return len(c.Table) > 0 && len(c.Expr.Args) > 0, labels
	case "insert":
		srcs := 0
		for _, f := range c.Inserts {
			if f.Key == "source" {
				srcs++
			}
		}
		if srcs >= 2 {
			labels = append(labels, "several-sources")
		}
		return len(c.Inserts) >= 3, labels
	default:
		return true, labels
	}
}

func c19KF(c c19Case, v *Violation) []string { return nil }

var c19Prop = &Prop[c19Case]{ID: "C19", Check: c19Check, Classify: c19Classify, KF: c19KF}

func init() { registerReplay(c19Prop) }

var (
	c19Keys   = []string{"gene", "CDS", "src", "source"}
	c19Names  = []string{"a", "b", "note", "ab"}
	c19Values = []string{"a", "b", "ab", "ba", "", "a/b", "x=y", "note", "aab", `a\`, `a\/b`}
	c19Res    = []string{"a", "b", ".", "a*", "^a", "b$", "[ab]", "a|b", "", `a\/b`, "=", "x=y", "^$", `a\\`, `\\`, `a\\\/b`, `^a\\$`}
	c19BadRes = []string{"(", "[a", "*a", "a{2", `\`}
)

func c19GenTable(t *rapid.T, n int, cfg locCfg) []Feat {
	out := make([]Feat, n)
	for i := range out {
		f := Feat{Key: rapid.SampledFrom(c19Keys).Draw(t, "key"), Loc: genLoc(t, cfg)}
		props := gts.Props{}
		nq := rapid.IntRange(0, 3).Draw(t, "nq")
		for j := 0; j < nq; j++ {
			name := rapid.SampledFrom(c19Names).Draw(t, "qname")
			nv := rapid.IntRange(1, 2).Draw(t, "nv")
			for k := 0; k < nv; k++ {
				props.Add(name, rapid.SampledFrom(c19Values).Draw(t, "qval"))
			}
		}
		for _, row := range props {
			f.Quals = append(f.Quals, append([]string(nil), row...))
		}
		out[i] = f
	}
	return out
}

func c19GenSelector(t *rapid.T, allowBad bool) string {
	var b strings.Builder
	if rapid.IntRange(0, 2).Draw(t, "haskey") > 0 {
		b.WriteString(rapid.SampledFrom(c19Keys).Draw(t, "selkey"))
	}
	n := rapid.IntRange(0, 3).Draw(t, "nclauses")
	for i := 0; i < n; i++ {
		b.WriteByte('/')
		name := ""
		if rapid.IntRange(0, 2).Draw(t, "named") > 0 {
			name = rapid.SampledFrom(c19Names).Draw(t, "cname")
		}
		b.WriteString(name)
		if name == "" && rapid.IntRange(0, 3).Draw(t, "bare") == 0 {
			continue // a literally empty clause ("gene//", "//"): unnamed, empty regexp
		}
		if name == "" || rapid.Bool().Draw(t, "hasre") {
			b.WriteByte('=')
			re := rapid.SampledFrom(c19Res).Draw(t, "re")
			if allowBad && rapid.IntRange(0, 15).Draw(t, "bad") == 0 {
				re = rapid.SampledFrom(c19BadRes).Draw(t, "badre")
			}
			b.WriteString(re)
		}
	}
	return b.String()
}

func c19GenExpr(t *rapid.T, depth, L int) c19Expr {
	if depth <= 0 || rapid.IntRange(0, 9).Draw(t, "leaf") < 4 {
		switch rapid.IntRange(0, 7).Draw(t, "leafop") {
		case 0:
			return c19Expr{Op: "sel", S: c19GenSelector(t, false)}
		case 1:
			return c19Expr{Op: "key", S: rapid.SampledFrom(append([]string{""}, c19Keys...)).Draw(t, "k")}
		case 2, 3:
			lo := rapid.IntRange(0, L).Draw(t, "lo")
			hi := rapid.IntRange(lo, L).Draw(t, "hi")
			return c19Expr{Op: rapid.SampledFrom([]string{"within", "overlap"}).Draw(t, "wo"), L: lo, U: hi}
		case 4:
			return c19Expr{Op: "fwd"}
		case 5:
			return c19Expr{Op: "rev"}
		case 6:
			return c19Expr{Op: "true"}
		default:
			return c19Expr{Op: "false"}
		}
	}
	switch rapid.IntRange(0, 2).Draw(t, "comb") {
	case 0:
		return c19Expr{Op: "not", Args: []c19Expr{c19GenExpr(t, depth-1, L)}}
	default:
		n := rapid.IntRange(1, 3).Draw(t, "nargs")
		args := make([]c19Expr, n)
		for i := range args {
			args[i] = c19GenExpr(t, depth-1, L)
		}
		return c19Expr{Op: rapid.SampledFrom([]string{"and", "or"}).Draw(t, "ao"), Args: args}
	}
}

// noNestedComplement rewrites complement-inside-complement so that strand filters have a defined meaning.
func noNestedComplement(l Loc, under bool) Loc {
	switch l.K {
	case "co":
		if under {
			return noNestedComplement(l.Parts[0], true)
		}
		return lco(noNestedComplement(l.Parts[0], true))
	case "jn", "or":
		out := Loc{K: l.K}
		for _, p := range l.Parts {
			out.Parts = append(out.Parts, noNestedComplement(p, under))
		}
		return out
	}
	return l
}

var genCli bool // c19Gen draws gts select invocations instead of library cases

func c19Gen(t *rapid.T) c19Case {
	L := 12
	cfg := locCfg{L: L, Hot: []int{0, 3, 6, 12}, MaxDepth: 2, MaxParts: 3, Ambig: true, Sites: true, MaxSpan: 5}
	if genCli {
		table := c19GenTable(t, rapid.IntRange(1, 7).Draw(t, "n"), cfg)
		for i := range table {
			fixed := noNestedComplement(table[i].Loc, false)
			table[i].Loc, _ = fromGts(toGts(fixed))
			if !hasResidue(den(table[i].Loc)) || !table[i].Loc.inBounds(L) {
				table[i].Loc = lpt(3)
			}
			if rapid.IntRange(0, 5).Draw(t, "src") == 0 {
				table[i].Key = "source"
			}
		}
		c := c19Case{Mode: "cli-select", More: rapid.SampledFrom([]int{0, 0, 1, 2, 3}).Draw(t, "more"), Table: table, Invert: rapid.Bool().Draw(t, "invert"), Strand: rapid.SampledFrom([]string{"", "", "both", "forward", "reverse"}).Draw(t, "strand")}
		for k := rapid.IntRange(0, 3).Draw(t, "nsel"); k > 0; k-- {
			if sel := c19GenSelector(t, false); sel != "" && !strings.HasPrefix(sel, "-") {
				c.Sels = append(c.Sels, sel)
				// related selectors: the same text continued (a longer name, a wider regexp, one more clause) or repeated
				if rapid.IntRange(0, 2).Draw(t, "related") == 0 {
					ext := sel + rapid.SampledFrom([]string{"b", "a", "b=a", "=a", "*", "|b", "/a", "/=b", "", "$"}).Draw(t, "ext")
					if _, err := gts.Selector(ext); err == nil {
						c.Sels = append(c.Sels, ext)
					}
				}
			}
		}
		if len(c.Sels) > 1 && rapid.Bool().Draw(t, "swap") {
			c.Sels[0], c.Sels[len(c.Sels)-1] = c.Sels[len(c.Sels)-1], c.Sels[0]
		}
		return c
	}
	switch rapid.IntRange(0, 4).Draw(t, "mode") {
	case 0, 1:
		return c19Case{Mode: "selector", Table: c19GenTable(t, drawCount(t, 0, 8, 30, "n"), cfg), Sel: c19GenSelector(t, true)}
	case 2:
		table := c19GenTable(t, rapid.IntRange(1, 6).Draw(t, "n"), cfg)
		for i := range table {
			fixed := noNestedComplement(table[i].Loc, false)
			table[i].Loc, _ = fromGts(toGts(fixed))
			if !hasResidue(den(table[i].Loc)) {
				table[i].Loc = lpt(3) // strand filters are asserted for residue-bearing features only
			}
		}
		e := c19GenExpr(t, 3, L)
		return c19Case{Mode: "algebra", Table: table, Expr: &e}
	case 3:
		n := drawCount(t, 0, 8, 40, "nins")
		ins := c19GenTable(t, n, cfg)
		return c19Case{Mode: "insert", Inserts: ins}
	default:
		tr := make([]Loc, 3)
		for i := range tr {
			tr[i] = genLoc(t, cfg)
		}
		return c19Case{Mode: "order", Triple: tr}
	}
}

func TestC19(t *testing.T) {
	st := newStats("C19")
	defer st.flush()
	rapidPart(t, c19Prop, st, "rapid", pick(40000, 300000), c19Gen)
	if t.Failed() {
		return
	}
	// crowded tables: up to 40 insertions / 30 features (sorting more than a dozen entries takes other code paths)
	rapidLargePart(t, c19Prop, st, pick(2000, 20000), c19Gen)
	if t.Failed() {
		return
	}
	// the same algebra through the command line: gts select with 0..3 selectors, -v and -s
	genCli = true
	rapidPart(t, c19Prop, st, "rapid-cli-select", pick(300, 4000), c19Gen)
	genCli = false
	if t.Failed() {
		return
	}
	// exhaustive order laws over all triples of a fixed pool of small locations
	// process history: the same selectors before and after 1 .. 1100 other selectors were compiled
	eh := enumPart(t, c19Prop, st, "selector-history")
	{
		table := []Feat{{Key: "gene", Loc: lrg(0, 3), Quals: [][]string{{"note", "alpha"}}}, {Key: "gene", Loc: lrg(3, 6), Quals: [][]string{{"note", "beta"}}},
			{Key: "CDS", Loc: lrg(0, 3), Quals: [][]string{{"note", "alpha"}, {"a", "b"}}}, {Key: "gene", Loc: lrg(2, 4), Quals: [][]string{{"a", "alpha"}}}}
		for _, n := range []int{1, 15, 16, 17, 63, 64, 65, 127, 128, 129, 255, 256, 257, 300, 511, 512, 513, 1023, 1024, 1025, 1100} {
			for _, sel := range []string{"gene/note=^alpha$", "/note=^alpha$", "/=^alpha$", "gene/note=beta", "CDS/a=b", "gene"} {
				if !eh.try(c19Case{Mode: "history", Table: table, Sel: sel, More: n}) {
					return
				}
			}
		}
	}
	eh.done(true)
	// strand filters on nested lists: every list of 1..3 children drawn from single-strand and mixed-strand
	// sub-lists (no complement inside a complement), under join and order, plain and complemented where that is
	// defined; forward, reverse and their negations
	en := enumPart(t, c19Prop, st, "nested-strands")
	{
		kids := func(o int) []Loc {
			return []Loc{lrg(o, o+2), lco(lrg(o, o+2)), lpt(o), ljn(lrg(o, o+1), lco(lrg(o+2, o+3))), lor(lco(lpt(o)), lrg(o+2, o+3)),
				ljn(lrg(o, o+1), lrg(o+2, o+3)), lco(ljn(lrg(o, o+1), lrg(o+2, o+3))), lor(lco(lrg(o, o+1)), lco(lpt(o+2))), lbt(o + 1)}
		}
		var lists [][]Loc
		for _, a := range kids(0) {
			lists = append(lists, []Loc{a})
			for _, b := range kids(4) {
				lists = append(lists, []Loc{a, b})
				for _, cc := range kids(8) {
					lists = append(lists, []Loc{a, b, cc})
				}
			}
		}
		exprs := []c19Expr{{Op: "fwd"}, {Op: "rev"}, {Op: "not", Args: []c19Expr{{Op: "fwd"}}}, {Op: "and", Args: []c19Expr{{Op: "not", Args: []c19Expr{{Op: "fwd"}}}, {Op: "not", Args: []c19Expr{{Op: "rev"}}}}}}
		for _, l := range lists {
			var table []Feat
			for _, w := range []Loc{ljn(l...), lor(l...), lor(ljn(l...), lrg(12, 13)), ljn(lor(l...), lco(lrg(12, 13)))} {
				w, _ = fromGts(toGts(w))
				if hasResidue(den(w)) {
					table = append(table, Feat{Key: "gene", Loc: w})
				}
			}
			for i := range exprs {
				if !en.try(c19Case{Mode: "algebra", Table: table, Expr: &exprs[i]}) {
					return
				}
			}
		}
	}
	en.done(true)
	// selectors of one invocation that continue one another's text (a longer name, a wider regexp, one more clause):
	// every base x continuation on a fixed table, in both orders, with and without -v
	er := enumPart(t, c19Prop, st, "related-selector-pairs")
	{
		q := func(kv ...string) [][]string {
			out := [][]string{}
			for i := 0; i+1 < len(kv); i += 2 {
				out = append(out, []string{kv[i], kv[i+1]})
			}
			return out
		}
		table := []Feat{{Key: "gene", Loc: lrg(0, 2), Quals: q("a", "a")}, {Key: "gene", Loc: lrg(1, 3), Quals: q("ab", "a")}, {Key: "gene", Loc: lrg(2, 4), Quals: q("a", "b")},
			{Key: "gene", Loc: lrg(3, 5), Quals: q("a", "ab")}, {Key: "CDS", Loc: lrg(4, 6), Quals: q("a", "a")}, {Key: "gene", Loc: lrg(5, 7), Quals: q("b", "a")},
			{Key: "gene", Loc: lrg(6, 8), Quals: q("note", "x")}, {Key: "gene", Loc: lrg(7, 9)}, {Key: "gene", Loc: lrg(8, 10), Quals: q("a", "a", "b", "b")},
			{Key: "src", Loc: lrg(9, 11), Quals: q("a", "ba")}, {Key: "CDS", Loc: lrg(10, 12), Quals: q("ab", "b")}}
		for _, base := range []string{"gene/a", "/a", "gene/a=a", "/a=a", "/=a", "gene", "CDS/a", "gene/a=^a$", "/a=^a", "gene/note"} {
			for _, ext := range []string{"b", "a", "b=a", "=a", "=b", "*", "|b", "/a", "/b", "/=b", "$"} {
				if _, err := gts.Selector(base + ext); err != nil {
					continue
				}
				for _, sels := range [][]string{{base, base + ext}, {base + ext, base}} {
					for _, inv := range []bool{false, true} {
						if !er.try(c19Case{Mode: "cli-select", Table: table, Sels: sels, Invert: inv}) {
							return
						}
					}
				}
			}
		}
	}
	er.done(true)
	e := enumPart(t, c19Prop, st, "order-triples")
	pool := []Loc{lpt(1), lpt(2), lbt(2), lrg(1, 3), lprg(1, 3, true, false), lprg(1, 3, true, true), lrg(2, 4), lrg(1, 4), lam(1, 3),
		lco(lrg(1, 3)), ljn(lrg(0, 1), lrg(3, 5)), ljn(lrg(3, 5), lrg(0, 1)), lor(lpt(0), lrg(2, 4)), lco(ljn(lrg(1, 2), lrg(4, 5))), ljn(lpt(1), lco(lrg(3, 4)))}
	if thorough() {
		pool = append(pool, smallLocs(3, true, true)...)
	}
	for _, a := range pool {
		for _, b := range pool {
			for _, cc := range pool {
				if !e.try(c19Case{Mode: "order", Triple: []Loc{a, b, cc}}) {
					return
				}
			}
		}
	}
	e.done(true)
	// exhaustive insertion orders: every permutation of a 5-feature set (two sources, overlapping locations)
	e2 := enumPart(t, c19Prop, st, "insert-permutations")
	base := []Feat{
		{Key: "source", Loc: lrg(0, 12)}, {Key: "source", Loc: lrg(0, 6)}, {Key: "gene", Loc: lrg(2, 6)},
		{Key: "CDS", Loc: ljn(lrg(2, 3), lrg(4, 6))}, {Key: "gene", Loc: lco(lrg(2, 6))}, {Key: "src", Loc: lprg(2, 6, true, false)},
	}
	perm := seqInts(len(base))
	var rec func(k int) bool
	rec = func(k int) bool {
		if k == len(perm) {
			ins := make([]Feat, len(perm))
			for i, p := range perm {
				ins[i] = base[p]
				ins[i].Quals = [][]string{{"label", fmt.Sprint(p)}}
			}
			return e2.try(c19Case{Mode: "insert", Inserts: ins})
		}
		for i := k; i < len(perm); i++ {
			perm[k], perm[i] = perm[i], perm[k]
			if !rec(k + 1) {
				return false
			}
			perm[k], perm[i] = perm[i], perm[k]
		}
		return true
	}
	sort.Ints(perm)
	if !rec(0) {
		return
	}
	e2.done(true)
}
