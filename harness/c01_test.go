package harness

// C01 — GenBank records written by gts read back identically (closure + fidelity).

import (
	"bytes"
	"fmt"
	"io"
	"os"
	"path/filepath"
	"reflect"
	"strings"
	"testing"
	"time"

	"github.com/go-gts/gts"
	"github.com/go-gts/gts/seqio"
	"pgregory.net/rapid"
)

type gbRef struct {
	Num     int     `json:"num"`
	Info    string  `json:"info,omitempty"`
	Authors string  `json:"authors,omitempty"`
	Group   string  `json:"group,omitempty"`
	Title   string  `json:"title,omitempty"`
	Journal string  `json:"journal,omitempty"`
	Pubmed  *string `json:"pubmed,omitempty"`
	Remark  string  `json:"remark,omitempty"`
}

type gbContig struct {
	Acc  string `json:"acc"`
	Head int    `json:"head"`
	Tail int    `json:"tail"`
}

type gbRec struct {
	Locus    string      `json:"locus"`
	Mol      string      `json:"mol"`
	Circ     bool        `json:"circ,omitempty"`
	Div      string      `json:"div,omitempty"`
	Date     [3]int      `json:"date"` // year, month, day
	Def      string      `json:"def,omitempty"`
	Acc      string      `json:"acc,omitempty"`
	Ver      string      `json:"ver,omitempty"`
	DBLink   [][2]string `json:"dblink,omitempty"`
	Keywords []string    `json:"keywords,omitempty"`
	Species  string      `json:"species,omitempty"`
	Organism string      `json:"organism,omitempty"`
	Taxon    []string    `json:"taxon,omitempty"`
	Refs     []gbRef     `json:"refs,omitempty"`
	Comments []string    `json:"comments,omitempty"`
	Extra    [][2]string `json:"extra,omitempty"`
	Contig   *gbContig   `json:"contig,omitempty"`
	Feats    []Feat      `json:"feats"`
	ResLen   int         `json:"reslen"`
	ResSeed  int         `json:"resseed,omitempty"`
}

type c01Op struct {
	Op string `json:"op"`
	I  int    `json:"i,omitempty"`
	N  int    `json:"n,omitempty"`
}

type c01Case struct {
	Mode   string  `json:"mode"` // record, stream, pipeline, corpus, date
	Recs   []gbRec `json:"recs,omitempty"`
	Ops    []c01Op `json:"ops,omitempty"`
	Corpus string  `json:"corpus,omitempty"` // file name under seqio/testdata
	Year   int     `json:"year,omitempty"`   // date mode: all days of this year
	Input  []byte  `json:"input,omitempty"`  // fuzz mode: raw bytes offered to the reader
	Deliv  int     `json:"deliv,omitempty"`  // record, stream, corpus: how the reader hands the bytes over when the output is read back (deliveryNames)
}

func (r gbRec) residues() []byte {
	p := make([]byte, r.ResLen)
	for i := range p {
		p[i] = byte(33 + (r.ResSeed+i*7)%94)
	}
	return p
}

func (r gbRec) build() seqio.GenBank {
	top := gts.Linear
	if r.Circ {
		top = gts.Circular
	}
	f := seqio.GenBankFields{LocusName: r.Locus, Molecule: gts.Molecule(r.Mol), Topology: top, Division: r.Div,
		Date: seqio.Date{Year: r.Date[0], Month: time.Month(r.Date[1]), Day: r.Date[2]}, Definition: r.Def, Accession: r.Acc, Version: r.Ver,
		Keywords: r.Keywords, Source: seqio.Organism{Species: r.Species, Name: r.Organism, Taxon: r.Taxon}, Comments: r.Comments}
	for _, p := range r.DBLink {
		f.DBLink = append(f.DBLink, seqio.Pair{Key: p[0], Value: p[1]})
	}
	for _, x := range r.Refs {
		ref := seqio.Reference{Number: x.Num, Info: x.Info, Authors: x.Authors, Group: x.Group, Title: x.Title, Journal: x.Journal, Comment: x.Remark}
		if x.Pubmed != nil {
			ref.Xref = map[string]string{"PUBMED": *x.Pubmed}
		}
		f.References = append(f.References, ref)
	}
	for _, e := range r.Extra {
		f.Extra = append(f.Extra, seqio.GenBankExtraField(e[0], e[1]))
	}
	if r.Contig != nil {
		f.Contig = seqio.Contig{Accession: r.Contig.Acc, Region: gts.Segment{r.Contig.Head, r.Contig.Tail}}
	}
	return seqio.GenBank{Fields: f, Table: featsToGts(r.Feats), Origin: seqio.NewOrigin(r.residues())}
}

var (
	regQuoted  = append([]string(nil), seqio.QuotedQualifierNames...)
	regLiteral = append([]string(nil), seqio.LiteralQualifierNames...)
	regToggle  = append([]string(nil), seqio.ToggleQualifierNames...)
)

// resetQualifierRegistries restores gts's global qualifier-name registries (the reader learns unknown names).
func resetQualifierRegistries() {
	seqio.QuotedQualifierNames = append([]string(nil), regQuoted...)
	seqio.LiteralQualifierNames = append([]string(nil), regLiteral...)
	seqio.ToggleQualifierNames = append([]string(nil), regToggle...)
}

func writeGenBank(seqs []gts.Sequence) (string, *Violation) {
	var buf bytes.Buffer
	var werr error
	if pi := guard(func() {
		w := seqio.NewWriter(&buf, seqio.GenBankFile)
		for _, s := range seqs {
			if _, err := w.WriteSeq(s); err != nil {
				werr = err
				return
			}
		}
	}); pi != nil {
		return "", panicViolation("GenBank writer", pi)
	}
	if werr != nil {
		return "", viol("write-error", "writer returned an error: %v", werr)
	}
	return buf.String(), nil
}

func readGenBank(text string, how ...int) ([]seqio.GenBank, string, *PanicInfo) {
	var out []seqio.GenBank
	errText := ""
	pi := guard(func() {
		var src io.Reader = strings.NewReader(text)
		if len(how) > 0 && how[0] != 0 {
			src = deliver([]byte(text), how[0])
		}
		sc := seqio.NewAutoScanner(src)
		for sc.Scan() {
			switch v := sc.Value().(type) {
			case seqio.GenBank:
				out = append(out, v)
			default:
				errText = fmt.Sprintf("scanner returned %T", v)
				return
			}
		}
		if err := sc.Err(); err != nil {
			errText = err.Error()
		}
	})
	return out, errText, pi
}

// compareRecords compares two records field by field; what names the comparison.
func compareRecords(what string, a, b seqio.GenBank) *Violation {
	fa, fb := a.Fields, b.Fields
	chk := func(name string, x, y interface{}) *Violation {
		if !reflect.DeepEqual(x, y) {
			return viol("field:"+name, "%s: %s differs: wrote %#v, read back %#v", what, name, x, y)
		}
		return nil
	}
	norm := func(ss []string) []string {
		if len(ss) == 0 {
			return nil
		}
		return ss
	}
	for _, v := range []*Violation{
		chk("locus", fa.LocusName, fb.LocusName), chk("molecule", fa.Molecule, fb.Molecule), chk("topology", fa.Topology, fb.Topology),
		chk("division", fa.Division, fb.Division), chk("date", fa.Date, fb.Date), chk("definition", fa.Definition, fb.Definition),
		chk("accession", fa.Accession, fb.Accession), chk("version", fa.Version, fb.Version),
		chk("keywords", norm(fa.Keywords), norm(fb.Keywords)), chk("source", fa.Source.Species, fb.Source.Species),
		chk("organism", fa.Source.Name, fb.Source.Name), chk("taxonomy", norm(fa.Source.Taxon), norm(fb.Source.Taxon)),
		chk("comments", norm(fa.Comments), norm(fb.Comments)), chk("contig", fa.Contig, fb.Contig),
	} {
		if v != nil {
			return v
		}
	}
	if len(fa.DBLink) != len(fb.DBLink) {
		return viol("field:dblink", "%s: dblink %v read back as %v", what, fa.DBLink, fb.DBLink)
	}
	for i := range fa.DBLink {
		if fa.DBLink[i] != fb.DBLink[i] {
			return viol("field:dblink", "%s: dblink %v read back as %v", what, fa.DBLink, fb.DBLink)
		}
	}
	if len(fa.References) != len(fb.References) {
		return viol("field:references", "%s: %d references read back as %d", what, len(fa.References), len(fb.References))
	}
	for i := range fa.References {
		x, y := fa.References[i], fb.References[i]
		if len(x.Xref) == 0 {
			x.Xref = nil
		}
		if len(y.Xref) == 0 {
			y.Xref = nil
		}
		if !reflect.DeepEqual(x, y) {
			return viol("field:references", "%s: reference %d %#v read back as %#v", what, i, x, y)
		}
	}
	if len(fa.Extra) != len(fb.Extra) {
		return viol("field:extra", "%s: %d extra fields read back as %d", what, len(fa.Extra), len(fb.Extra))
	}
	for i := range fa.Extra {
		if fa.Extra[i].Name != fb.Extra[i].Name || fa.Extra[i].Value != fb.Extra[i].Value {
			return viol("field:extra", "%s: extra field %q=%q read back as %q=%q", what, fa.Extra[i].Name, fa.Extra[i].Value, fb.Extra[i].Name, fb.Extra[i].Value)
		}
	}
	if len(a.Table) != len(b.Table) {
		return viol("table", "%s: %d features read back as %d", what, len(a.Table), len(b.Table))
	}
	for i := range a.Table {
		x, y := a.Table[i], b.Table[i]
		if x.Key != y.Key {
			return viol("table", "%s: feature %d key %q read back as %q", what, i, x.Key, y.Key)
		}
		if x.Loc.String() != y.Loc.String() {
			return viol("table", "%s: feature %d location %s read back as %s", what, i, x.Loc, y.Loc)
		}
		ax, _ := fromGts(x.Loc)
		ay, ok := fromGts(y.Loc)
		if !ok || fmt.Sprint(collapse(den(ax))) != fmt.Sprint(collapse(den(ay))) {
			return viol("table", "%s: feature %d location %s denotes something else after reading (%s)", what, i, ax, ay)
		}
		if !reflect.DeepEqual([][]string(x.Props.Clone()), [][]string(y.Props.Clone())) && !(len(x.Props) == 0 && len(y.Props) == 0) {
			return viol("qualifiers", "%s: feature %d (%s) qualifiers %q read back as %q", what, i, x.Key, [][]string(x.Props), [][]string(y.Props))
		}
	}
	if !bytes.Equal(a.Bytes(), b.Bytes()) || gts.Len(a) != gts.Len(b) {
		return viol("residues", "%s: %d residues read back as %d", what, len(a.Bytes()), len(b.Bytes()))
	}
	return nil
}

// roundTrip: write -> read -> compare -> write again -> byte equality.
func roundTrip(what string, recs []seqio.GenBank, how ...int) *Violation {
	if len(how) > 0 && how[0] != 0 {
		what += " (reader: " + deliveryNames[how[0]%len(deliveryNames)] + ")"
	}
	seqs := make([]gts.Sequence, len(recs))
	for i, r := range recs {
		seqs[i] = r
	}
	s1, v := writeGenBank(seqs)
	if v != nil {
		return v
	}
	back, errText, pi := readGenBank(s1, how...)
	if pi != nil {
		return panicViolation("reading back "+what, pi)
	}
	if errText != "" {
		return viol("rejected", "%s: gts rejects its own output: %s\n%s", what, errText, clipStr(s1, 1500))
	}
	if len(back) != len(recs) {
		return viol("framing", "%s: wrote %d records, read back %d", what, len(recs), len(back))
	}
	for i := range recs {
		if v := compareRecords(fmt.Sprintf("%s record %d", what, i), recs[i], back[i]); v != nil {
			return v
		}
	}
	// the same text with CRLF line ends (as a file that went through another system has) holds the same records; all
	// of them are collected before any is looked at
	if !strings.Contains(s1, "\r") {
		cr, errText, pi := readGenBank(crlf(s1), how...)
		if pi != nil {
			return panicViolation("reading back "+what+" with CRLF line ends", pi)
		}
		if errText != "" || len(cr) != len(recs) {
			return viol("rejected", "%s: with CRLF line ends gts reads %d of its %d records: %s", what, len(cr), len(recs), errText)
		}
		// (header and qualifier values of a CRLF file are outside this property; the framing and the residues are not)
		for i := range recs {
			if !bytes.Equal(recs[i].Bytes(), cr[i].Bytes()) || gts.Len(recs[i]) != gts.Len(cr[i]) {
				return viol("residues", "%s record %d: with CRLF line ends the %d residues read back as %d (first difference at %d)", what, i, len(recs[i].Bytes()), len(cr[i].Bytes()), firstDiff(string(recs[i].Bytes()), string(cr[i].Bytes())))
			}
		}
	}
	seqs2 := make([]gts.Sequence, len(back))
	for i, r := range back {
		seqs2[i] = r
	}
	s2, v := writeGenBank(seqs2)
	if v != nil {
		return v
	}
	if s1 != s2 {
		i := firstDiff(s1, s2)
		return viol("fixed-point", "%s: writing the re-read records differs at byte %d: %q vs %q", what, i, clipStr(s1[maxInt(0, i-60):], 160), clipStr(s2[maxInt(0, i-60):], 160))
	}
	return nil
}

func corpusDir() string {
	d := os.Getenv("VERIF_REPO_DIR")
	if d == "" {
		d = "/repo"
	}
	return filepath.Join(d, "seqio", "testdata")
}

func (op c01Op) apply(seq gts.Sequence, guest gts.Sequence) gts.Sequence {
	L := gts.Len(seq)
	i := 0
	if L > 0 {
		i = mod(op.I, L+1)
	}
	n := 0
	if L-i > 0 {
		n = mod(op.N, L-i+1)
	}
	switch op.Op {
	case "insert":
		return gts.Insert(seq, i, guest)
	case "embed":
		return gts.Embed(seq, i, guest)
	case "delete":
		return gts.Delete(seq, i, n)
	case "erase":
		return gts.Erase(seq, i, n)
	case "slice":
		return gts.Slice(seq, i, i+n)
	case "rotate":
		if L == 0 {
			return seq
		}
		return gts.Rotate(seq, op.I)
	case "reverse":
		return gts.Reverse(seq)
	case "complement":
		return gts.Complement(seq)
	case "concat":
		return gts.Concat(seq, guest)
	}
	return seq
}

func c01Check(c c01Case) *Violation {
	resetQualifierRegistries()
	defer resetQualifierRegistries()
	switch c.Mode {
	case "fuzz":
		return c01Fuzz(c.Input)
	case "record", "stream":
		recs := make([]seqio.GenBank, len(c.Recs))
		for i, r := range c.Recs {
			recs[i] = r.build()
		}
		return roundTrip(c.Mode, recs, c.Deliv)
	case "corpus":
		data, err := os.ReadFile(filepath.Join(corpusDir(), c.Corpus))
		if err != nil {
			panic(err)
		}
		recs, errText, pi := readGenBank(string(data), c.Deliv)
		if pi != nil {
			return panicViolation("reading corpus file "+c.Corpus, pi)
		}
		if errText != "" || len(recs) == 0 {
			return viol("corpus", "corpus file %s: %d records, error %q", c.Corpus, len(recs), errText)
		}
		return roundTrip("corpus "+c.Corpus, recs, c.Deliv)
	case "pipeline":
		var seq gts.Sequence
		if c.Corpus != "" {
			data, err := os.ReadFile(filepath.Join(corpusDir(), c.Corpus))
			if err != nil {
				panic(err)
			}
			recs, errText, pi := readGenBank(string(data))
			if pi != nil || errText != "" || len(recs) == 0 {
				return viol("corpus", "corpus file %s unreadable", c.Corpus)
			}
			seq = recs[0]
		} else {
			seq = c.Recs[0].build()
		}
		guest := gts.New(nil, gts.FeatureSlice{gts.NewFeature("misc_feature", gts.Range(0, 3), gts.Props{{"note", "guest"}})}, []byte("gtt"))
		for k, op := range c.Ops {
			o := op
			if pi := guard(func() { seq = o.apply(seq, guest) }); pi != nil {
				v := panicViolation(fmt.Sprintf("pipeline op %d %s", k, op.Op), pi)
				v.Kind = "pipeline-panic"
				return v
			}
		}
		gb, ok := seq.(seqio.GenBank)
		if !ok {
			return viol("pipeline-carrier", "pipeline result is %T", seq)
		}
		return roundTrip(fmt.Sprintf("pipeline %v", c.Ops), []seqio.GenBank{gb})
	case "date":
		days := []int{31, 28, 31, 30, 31, 30, 31, 31, 30, 31, 30, 31}
		leap := c.Year%4 == 0 && (c.Year%100 != 0 || c.Year%400 == 0)
		for m := 1; m <= 12; m++ {
			dm := days[m-1]
			if m == 2 && leap {
				dm++
			}
			for d := 0; d <= 32; d++ {
				text := fmt.Sprintf("%02d-%s-%04d", d, strings.ToUpper(time.Month(m).String()[:3]), c.Year)
				var got seqio.Date
				var err error
				if pi := guard(func() { got, err = seqio.AsDate(text) }); pi != nil {
					return panicViolation("AsDate("+text+")", pi)
				}
				valid := d >= 1 && d <= dm
				if valid != (err == nil) {
					return viol("date", "AsDate(%q): error %v, but the day is valid=%v", text, err, valid)
				}
				if !valid {
					continue
				}
				if got != (seqio.Date{Year: c.Year, Month: time.Month(m), Day: d}) {
					return viol("date", "AsDate(%q) = %v", text, got)
				}
				// the writer's spelling of that date
				rec := gbRec{Locus: "D", Mol: "DNA", Date: [3]int{c.Year, m, d}, Feats: []Feat{{Key: "gene", Loc: lpt(0)}}}
				out, v := writeGenBank([]gts.Sequence{rec.build()})
				if v != nil {
					return v
				}
				line := out[:strings.IndexByte(out, '\n')]
				if !strings.HasSuffix(line, " "+text) {
					return viol("date", "LOCUS line %q does not end with %q", line, text)
				}
				back, errText, pi := readGenBank(out)
				if pi != nil || errText != "" || len(back) != 1 || back[0].Fields.Date != got {
					return viol("date", "record dated %s does not read back (%s)", text, errText)
				}
			}
		}
		return nil
	}
	return nil
}

func c01Classify(c c01Case) (bool, []string) {
	labels := []string{"mode:" + c.Mode}
	nt := c.Mode != "record"
	for _, r := range c.Recs {
		if len(r.Feats) == 0 {
			labels = append(labels, "empty-table")
			nt = true
		}
		if r.ResLen == 0 && r.Contig != nil {
			labels = append(labels, "contig-only")
			nt = true
		}
		if len(r.Refs) >= 2 {
			labels = append(labels, "refs>=2")
			nt = true
		}
		for _, f := range r.Feats {
			for _, q := range f.Quals {
				for _, v := range q[1:] {
					if strings.Contains(v, "\n") {
						labels = append(labels, "multi-line-qualifier")
						nt = true
					}
					if strings.Contains(v, `"`) {
						labels = append(labels, "quote-in-value")
					}
				}
				switch seqio.GetQualifierType(q[0]) {
				case seqio.ToggleQualifier:
					labels = append(labels, "toggle")
					nt = true
				case seqio.UnknownQualifier:
					labels = append(labels, "unknown-qualifier")
					nt = true
				case seqio.LiteralQualifier:
					labels = append(labels, "literal")
				}
			}
		}
	}
	for _, op := range c.Ops {
		labels = append(labels, "op:"+op.Op)
	}
	return nt, labels
}

func c01KF(c c01Case, v *Violation) []string {
	var sigs []string
	for _, r := range c.Recs {
		for _, f := range r.Feats {
			for _, q := range f.Quals {
				for _, val := range q[1:] {
					if strings.Contains(val, `"`) && seqio.GetQualifierType(q[0]) != seqio.LiteralQualifier && seqio.GetQualifierType(q[0]) != seqio.ToggleQualifier {
						sigs = append(sigs, "double-quote-in-quoted-qualifier")
					}
				}
			}
		}
	}
	return sigs
}

var c01Prop = &Prop[c01Case]{ID: "C01", Check: c01Check, Classify: c01Classify, KF: c01KF}

func init() { registerReplay(c01Prop) }

// ---- generators ---------------------------------------------------------------------------------

const c01TextAlphabet = "ABCDEFGHIJKLMNOPQRSTUVWXYZabcdefghijklmnopqrstuvwxyz0123456789,:()'/+-"

// c01WideAlphabet: every other printable ASCII character; used for some words of free-text header lines.
const c01WideAlphabet = ".;=_*[]<>\"#%&!?@^~|`$\\{}"

func genWord(t *rapid.T, maxLen int) string {
	n := rapid.IntRange(1, maxLen).Draw(t, "wlen")
	b := make([]byte, n)
	for i := range b {
		b[i] = c01TextAlphabet[rapid.IntRange(0, len(c01TextAlphabet)-1).Draw(t, "wc")]
	}
	return string(b)
}

// genWideWord mixes in punctuation that means something somewhere in the flat-file grammar.
func genWideWord(t *rapid.T, maxLen int) string {
	if rapid.IntRange(0, 7).Draw(t, "utf8") == 0 {
		// text outside ASCII (people do write it into notes and definitions): several bytes per character
		return rapid.SampledFrom([]string{"é", "µm", "α→β", "naïve", "Ångström", "日本", "5′", "–"}).Draw(t, "uword")
	}
	n := rapid.IntRange(1, maxLen).Draw(t, "wlen")
	b := make([]byte, n)
	for i := range b {
		if rapid.IntRange(0, 2).Draw(t, "wide") == 0 {
			b[i] = c01WideAlphabet[rapid.IntRange(0, len(c01WideAlphabet)-1).Draw(t, "wwc")]
		} else {
			b[i] = c01TextAlphabet[rapid.IntRange(0, len(c01TextAlphabet)-1).Draw(t, "wc")]
		}
	}
	return string(b)
}

// genLine: words separated by single blanks, at most maxCols columns, no leading/trailing blank.
func genLine(t *rapid.T, maxCols int) string {
	var parts []string
	total := 0
	n := rapid.IntRange(1, 8).Draw(t, "nwords")
	for i := 0; i < n; i++ {
		w := genWord(t, 12)
		if rapid.IntRange(0, 3).Draw(t, "widew") == 0 {
			w = genWideWord(t, 12)
		}
		if total+len(w)+1 > maxCols {
			break
		}
		parts = append(parts, w)
		total += len(w) + 1
	}
	if len(parts) == 0 {
		return "x"
	}
	return strings.Join(parts, " ")
}

func genText(t *rapid.T, maxLines int) string {
	n := rapid.IntRange(1, maxLines).Draw(t, "nlines")
	lines := make([]string, n)
	for i := range lines {
		lines[i] = genLine(t, 67)
		// a paragraph break: an empty line strictly inside the value
		if i > 0 && i < n-1 && rapid.IntRange(0, 3).Draw(t, "blankline") == 0 {
			lines[i] = ""
		}
	}
	return strings.Join(lines, "\n")
}

func genItems(t *rapid.T, max int) []string {
	n := rapid.IntRange(0, max).Draw(t, "nitems")
	var out []string
	for i := 0; i < n; i++ {
		// items of a "; "-separated, "."-terminated list: no "; " inside
		it := strings.ReplaceAll(genLine(t, 30), "; ", ";_")
		if rapid.IntRange(0, 4).Draw(t, "period") == 0 {
			// an entry that ends in periods of its own ("Bacillus sp."): the list is then written with one more
			it = strings.TrimRight(it, ".") + rapid.SampledFrom([]string{".", "..", " sp."}).Draw(t, "periods")
		} else {
			it = strings.TrimRight(it, ".")
		}
		it = strings.ReplaceAll(it, "; ", ";_")
		if it == "" {
			it = "k"
		}
		out = append(out, it)
	}
	return out
}

// The three INSDC qualifier classes as the pinned tree knows them (harness's own copy: a name that silently changes
// class in gts must not change class here too).
var c01AllQuotedNames = strings.Fields(`allele altitude artificial_location bio_material bound_moiety cell_line cell_type chromosome
	clone clone_lib collected_by collection_date country cultivar culture_collection db_xref dev_stage EC_number ecotype exception
	experiment frequency function gap_type gene gene_synonym haplogroup haplotype host identified_by inference isolate
	isolation_source lab_host lat_lon linkage_evidence locus_tag map mating_type metagenome_source mobile_element_type mol_type
	ncRNA_class note old_locus_tag operon organelle organism PCR_conditions PCR_primers phenotype plasmid pop_variant product
	protein_id pseudogene recombination_class regulatory_class replace rpt_family rpt_unit_seq satellite segment serotype serovar
	sex specimen_voucher standard_name strain sub_clone submitter_seqid sub_species sub_strain tissue_lib tissue_type translation
	type_material variety`)
var c01AllLiteralNames = strings.Fields(`anticodon citation codon_start compare direction estimated_length mod_base number rpt_type
	rpt_unit_range tag_peptide transl_except transl_table`)
var c01AllToggleNames = strings.Fields(`environmental_sample focus germline macronuclear partial proviral pseudo rearranged
	ribosomal_slippage transgenic trans_splicing`)

// the random parts draw mostly from a few common names and sometimes from the whole class
var c01QuotedNames = append([]string{"note", "gene", "product", "locus_tag", "db_xref", "note", "gene", "translation"}, c01AllQuotedNames...)
var c01LiteralNames = append([]string{"codon_start", "transl_table", "number", "citation"}, c01AllLiteralNames...)
var c01ToggleNames = append([]string{"pseudo", "partial", "ribosomal_slippage"}, c01AllToggleNames...)
var c01UnknownNames = []string{"xq_one", "My_tag2", "z9"}

func genQualValue(t *rapid.T, allowQuote bool) string {
	switch rapid.IntRange(0, 7).Draw(t, "vkind") {
	case 0:
		return ""
	case 1:
		return genLine(t, 50) + "\n" + genLine(t, 50)
	case 2:
		return rapid.SampledFrom([]string{"a/b", "x=y", "/start", "=", "a b  c", " lead", "trail ", "tab\tin"}).Draw(t, "odd")
	case 3:
		if allowQuote {
			return rapid.SampledFrom([]string{`say "hi"`, `"`, `a""b`}).Draw(t, "quoted")
		}
		return "plain"
	case 4:
		return genLine(t, 58) + "\n" + genLine(t, 58) + "\n" + genLine(t, 20)
	default:
		return genLine(t, 50)
	}
}

func genGBFeats(t *rapid.T, n, L int, allowQuote bool) []Feat {
	cfg := locCfg{L: maxInt(L, 12), Hot: []int{0, 1, L}, MaxDepth: 3, MaxParts: 4, Ambig: true, Sites: true}
	keys := []string{"source", "gene", "CDS", "misc_feature", "tRNA", "rep_origin", "variation", "a_15_char_key_x"}
	out := make([]Feat, n)
	for i := range out {
		f := Feat{Key: rapid.SampledFrom(keys).Draw(t, "fkey"), Loc: genLoc(t, cfg)}
		props := gts.Props{}
		nq := rapid.IntRange(0, 4).Draw(t, "nq")
		for j := 0; j < nq; j++ {
			switch rapid.IntRange(0, 5).Draw(t, "qkind") {
			case 0, 1:
				props.Add(rapid.SampledFrom(c01QuotedNames).Draw(t, "qn"), genQualValue(t, allowQuote))
			case 2:
				props.Add(rapid.SampledFrom(c01LiteralNames).Draw(t, "ln"), rapid.SampledFrom([]string{"1", "11", "(pos:1..3,aa:Met)", "", "a=b"}).Draw(t, "lv"))
			case 3:
				name := rapid.SampledFrom(c01ToggleNames).Draw(t, "tn")
				if !props.Has(name) {
					props.Add(name, "")
				}
			default:
				props.Add(rapid.SampledFrom(c01UnknownNames).Draw(t, "un"), genQualValue(t, allowQuote))
			}
		}
		for _, row := range props {
			f.Quals = append(f.Quals, append([]string(nil), row...))
		}
		out[i] = f
	}
	return out
}

func c01GenRec(t *rapid.T, allowQuote bool) gbRec {
	r := gbRec{
		Locus: genWord(t, rapid.SampledFrom([]int{16, 16, 16, 40}).Draw(t, "locuslen")),
		Mol:   rapid.SampledFrom([]string{"DNA", "RNA", "AA", "ss-DNA", "ds-DNA"}).Draw(t, "mol"),
		Circ:  rapid.Bool().Draw(t, "circ"),
		Div:   rapid.SampledFrom([]string{"", "BCT", "SYN", "CON", "PLN"}).Draw(t, "div"),
	}
	y := rapid.SampledFrom([]int{1, 999, 1000, 1899, 1900, 1996, 2000, 2020, 2024, 2100, 9999}).Draw(t, "year")
	m := rapid.IntRange(1, 12).Draw(t, "month")
	r.Date = [3]int{y, m, rapid.IntRange(1, 28).Draw(t, "day")}
	if rapid.IntRange(0, 4).Draw(t, "hasdef") > 0 {
		r.Def = genText(t, 3)
		if rapid.IntRange(0, 5).Draw(t, "defdot") == 0 {
			r.Def += "."
		}
	}
	if rapid.Bool().Draw(t, "hasacc") {
		r.Acc = genWord(t, 10)
		r.Ver = r.Acc + ".1"
	}
	nd := rapid.IntRange(0, 3).Draw(t, "ndblink")
	for i := 0; i < nd; i++ {
		val := genWord(t, 12)
		switch rapid.IntRange(0, 9).Draw(t, "dbval") {
		case 0, 1:
			val = ""
		case 2:
			val = genLine(t, 40) // several words
		case 3:
			val = genWord(t, 8) + ": " + genWord(t, 8) // the key/value separator again, inside the value
		case 4:
			val = genWord(t, 6) + ":" + genWord(t, 6) + ": " + genWord(t, 4) + ", " + genWord(t, 4) + ": " + genWord(t, 3)
		case 5:
			val = " " + genWord(t, 8) // as in the corpus ("KEGG BRITE:  NC_001422")
		}
		name := fmt.Sprintf("Db%d%s", i, strings.ReplaceAll(genWord(t, 5), ":", "x"))
		if i > 0 && rapid.IntRange(0, 3).Draw(t, "casetwin") == 0 {
			// a name that differs from an earlier one in letter case only: a different name
			prev := r.DBLink[rapid.IntRange(0, len(r.DBLink)-1).Draw(t, "twinof")][0]
			name = rapid.SampledFrom([]string{strings.ToUpper(prev), strings.ToLower(prev), strings.Title(strings.ToLower(prev))}).Draw(t, "twincase")
			for _, p := range r.DBLink {
				if p[0] == name {
					name += "x" // an exact repeat of a name is one entry, not two (outside the writable domain)
				}
			}
		}
		r.DBLink = append(r.DBLink, [2]string{name, val})
	}
	r.Keywords = genItems(t, 6)
	if rapid.IntRange(0, 3).Draw(t, "hassrc") > 0 {
		r.Species = genText(t, 2)
		r.Organism = genLine(t, 60)
		r.Taxon = genItems(t, 8)
	}
	nr := rapid.IntRange(0, 3).Draw(t, "nrefs")
	for i := 0; i < nr; i++ {
		ref := gbRef{Num: rapid.SampledFrom([]int{i + 1, i + 1, 10 + i, 100 + i, 999}).Draw(t, "refnum")}
		if rapid.Bool().Draw(t, "info") {
			ref.Info = rapid.SampledFrom([]string{"(bases 1 to 10)", "(bases 1 to 5; 7 to 9)", "(sites)", "(residues 2 to 3)"}).Draw(t, "refinfo")
		}
		if rapid.Bool().Draw(t, "au") {
			ref.Authors = genText(t, 2)
		}
		if rapid.IntRange(0, 3).Draw(t, "gr") == 0 {
			ref.Group = genLine(t, 40)
		}
		if rapid.Bool().Draw(t, "ti") {
			ref.Title = genText(t, 3)
		}
		if rapid.Bool().Draw(t, "jo") {
			ref.Journal = genText(t, 2)
		}
		if rapid.Bool().Draw(t, "pm") {
			s := fmt.Sprint(rapid.IntRange(1, 99999999).Draw(t, "pmid"))
			ref.Pubmed = &s
		}
		if rapid.IntRange(0, 3).Draw(t, "rm") == 0 {
			ref.Remark = genText(t, 2)
		}
		r.Refs = append(r.Refs, ref)
	}
	nc := rapid.IntRange(0, 2).Draw(t, "ncomments")
	for i := 0; i < nc; i++ {
		r.Comments = append(r.Comments, genText(t, 3))
	}
	ne := rapid.IntRange(0, 2).Draw(t, "nextra")
	for i := 0; i < ne; i++ {
		name := rapid.SampledFrom([]string{"PROJECT", "SEGMENT", "BASE", "NID", "XYZABCDEFG", "A"}).Draw(t, "extraname")
		r.Extra = append(r.Extra, [2]string{name, genText(t, 2)})
	}
	switch rapid.IntRange(0, 5).Draw(t, "lenkind") {
	case 0:
		r.ResLen = 0
	case 1:
		r.ResLen = rapid.SampledFrom([]int{1, 9, 10, 11, 59, 60, 61, 119, 120, 121, 130}).Draw(t, "blen")
	default:
		r.ResLen = rapid.IntRange(0, 200).Draw(t, "reslen")
	}
	r.ResSeed = rapid.IntRange(0, 93).Draw(t, "resseed")
	if rapid.IntRange(0, 4).Draw(t, "contig") == 0 {
		a := rapid.IntRange(0, 50).Draw(t, "chead")
		r.Contig = &gbContig{Acc: strings.ReplaceAll(genWord(t, 10), ":", "x"), Head: a, Tail: a + rapid.SampledFrom([]int{1, 2, 60, 499, 500, 99999999, 999999999, 1000000000, 1500000000, 1<<31 - 1, 1 << 31, 1<<32 + 5, 1 << 40}).Draw(t, "clen")}
	}
	r.Feats = genGBFeats(t, rapid.IntRange(0, 6).Draw(t, "nfeats"), r.ResLen, allowQuote)
	return r
}

var c01OpNames = []string{"insert", "embed", "delete", "erase", "slice", "rotate", "reverse", "complement", "concat"}

func c01Gen(t *rapid.T) c01Case {
	switch rapid.IntRange(0, 9).Draw(t, "mode") {
	case 0, 1:
		n := rapid.IntRange(2, 5).Draw(t, "nrecs")
		c := c01Case{Mode: "stream"}
		for i := 0; i < n; i++ {
			c.Recs = append(c.Recs, c01GenRec(t, false))
		}
		if rapid.IntRange(0, 2).Draw(t, "shortreads") == 0 {
			c.Deliv = rapid.IntRange(1, len(deliveryNames)-1).Draw(t, "deliv")
		}
		return c
	case 2, 3:
		c := c01Case{Mode: "pipeline"}
		if rapid.IntRange(0, 3).Draw(t, "corpus") == 0 {
			c.Corpus = rapid.SampledFrom([]string{"NC_001422.gb", "NC_001422_part.gb", "pBAT5.txt"}).Draw(t, "file")
		} else {
			r := c01GenRec(t, false)
			// pipelines edit coordinates: give the record real residues and in-range features
			if r.ResLen < 4 {
				r.ResLen = 4 + r.ResSeed%40
			}
			cfg := locCfg{L: r.ResLen, Hot: []int{0, r.ResLen}, MaxDepth: 2, MaxParts: 3, Sites: true}
			for i := range r.Feats {
				r.Feats[i].Loc = genLoc(t, cfg)
			}
			r.Contig = nil
			c.Recs = []gbRec{r}
		}
		// edit indices: mostly aligned with (or next to) the ends of location parts, where edits change a location's shape
		hot := []int{0}
		for _, r := range c.Recs {
			hot = append(hot, r.ResLen)
			for _, f := range r.Feats {
				for _, x := range f.Loc.leaves() {
					hot = append(hot, x.A-1, x.A, x.A+1, x.B-1, x.B, x.B+1)
				}
			}
		}
		n := rapid.IntRange(1, 4).Draw(t, "nops")
		for i := 0; i < n; i++ {
			op := c01Op{Op: rapid.SampledFrom(c01OpNames).Draw(t, "op"), I: rapid.IntRange(0, 300).Draw(t, "i"), N: rapid.IntRange(0, 300).Draw(t, "n")}
			if rapid.IntRange(0, 3).Draw(t, "aligned") > 0 {
				a, b := maxInt(rapid.SampledFrom(hot).Draw(t, "hi"), 0), maxInt(rapid.SampledFrom(hot).Draw(t, "hj"), 0)
				if a > b {
					a, b = b, a
				}
				op.I, op.N = a, b-a
			}
			c.Ops = append(c.Ops, op)
		}
		return c
	default:
		return c01Case{Mode: "record", Recs: []gbRec{c01GenRec(t, rapid.IntRange(0, 9).Draw(t, "allowquote") == 0)}}
	}
}

func c01CorpusFiles() []string {
	return []string{"NC_000913.3.min.gb", "NC_001422.gb", "NC_001422_part.gb", "pBAT5.txt"}
}

func TestC01(t *testing.T) {
	st := newStats("C01")
	defer st.flush()
	e := enumPart(t, c01Prop, st, "corpus")
	for _, f := range c01CorpusFiles() {
		if !e.try(c01Case{Mode: "corpus", Corpus: f}) {
			return
		}
	}
	e.done(true)
	// every residue count 0..130 once (mod 10 / mod 60 boundaries), with and without a feature table, CONTIG-only
	e2 := enumPart(t, c01Prop, st, "length-sweep")
	for n := 0; n <= 130; n++ {
		base := gbRec{Locus: "SWEEP", Mol: "DNA", Div: "SYN", Date: [3]int{2020, 2, 29}, Def: "sweep", Acc: "A", Ver: "A.1", ResLen: n, ResSeed: n,
			Feats: []Feat{{Key: "source", Loc: lrg(0, maxInt(n, 1)), Quals: [][]string{{"mol_type", "genomic DNA"}}}}}
		if !e2.try(c01Case{Mode: "record", Recs: []gbRec{base}}) {
			return
		}
		two := base
		two.Locus = "SECOND"
		if !e2.try(c01Case{Mode: "stream", Recs: []gbRec{base, two, base}}) {
			return
		}
	}
	co := gbRec{Locus: "CONTIGONLY", Mol: "DNA", Div: "CON", Date: [3]int{2018, 10, 11}, Def: "c", Contig: &gbContig{Acc: "U00096.3", Head: 0, Tail: 4641652},
		Feats: []Feat{{Key: "source", Loc: lrg(0, 4641652)}}}
	if !e2.try(c01Case{Mode: "record", Recs: []gbRec{co}}) {
		return
	}
	noTable := gbRec{Locus: "NOTABLE", Mol: "DNA", Date: [3]int{2020, 1, 1}, ResLen: 20}
	if !e2.try(c01Case{Mode: "record", Recs: []gbRec{noTable}}) {
		return
	}
	e2.done(true)
	// dates: every day (and the invalid days 0 and 29..32) of selected years; thorough: every year 1..9999 sharded
	e3 := enumPart(t, c01Prop, st, "dates")
	years := []int{1, 4, 100, 400, 999, 1000, 1899, 1900, 1904, 1996, 1999, 2000, 2001, 2004, 2020, 2023, 2024, 2100, 2400, 9999}
	if thorough() {
		years = nil
		for y := 1; y <= 9999; y++ {
			years = append(years, y)
		}
	}
	for _, y := range years {
		if !e3.try(c01Case{Mode: "date", Year: y}) {
			return
		}
	}
	e3.done(thorough())
	// read-size boundaries: the reader pulls its input in 4096-byte blocks. A first record of chosen size pushes a
	// second, syntactically rich record (doubled quotes, multi-line quoted and literal values, wrapped join, every
	// header field) so that each of its bytes in turn is the first / last byte of a block.
	{
		eb := enumPart(t, c01Prop, st, "read-boundary-sweep")
		rich := gbRec{Locus: "RICH", Mol: "DNA", Circ: true, Div: "SYN", Date: [3]int{2020, 2, 29}, Def: "a rich record: with \"quotes\", slashes / and = signs", Acc: "RICH1", Ver: "RICH1.1",
			DBLink:   [][2]string{{"BioProject", "PRJNA1: x, y: z"}, {"KEGG BRITE", " lead"}, {"BIOPROJECT", "PRJNA2"}, {"bioproject", "PRJNA3"}},
			Keywords: []string{"k one", "k;two", "three"}, Species: "synthetic construct", Organism: "synthetic construct", Taxon: []string{"other sequences", "artificial sequences"},
			Refs:     []gbRef{{Num: 1, Info: "(bases 1 to 130)", Authors: "A,B. and C,D.", Title: "a title that is long enough to be\nwrapped over two lines", Journal: "J. Test 1 (2), 3-4 (2020)"}, {Num: 2, Info: "(sites)", Title: "t"}},
			Comments: []string{"first comment\nsecond line of it", "another"}, Extra: [][2]string{{"PROJECT", "GenomeProject:12345"}},
			Feats: []Feat{
				{Key: "source", Loc: lrg(0, 130), Quals: [][]string{{"organism", "synthetic construct"}, {"mol_type", "other DNA"}}},
				{Key: "CDS", Loc: lco(ljn(lprg(2, 20, true, false), lrg(30, 45), lrg(50, 62), lrg(70, 88), lrg(90, 101), lprg(110, 126, false, true))), Quals: [][]string{{"gene", "g"}, {"note", "the so-called \"product\" of \"\"g\"\""}, {"codon_start", "1"}, {"transl_except", "(pos:1..3,aa:Met)"}, {"pseudo", ""}, {"translation", "MKLVINGKTLKGEITVEAPDAATAIKDALHAAGYDLSVEEIRIVHKEGLLTGAIQSFS\nPPRLPSGHADAEVNYGKGLYRKLFP"}, {"xq_one", "unknown \"name\" value"}}},
				{Key: "misc_feature", Loc: lor(lpt(5), lbt(9), lam(12, 15)), Quals: [][]string{{"note", "\"", "x\"\"y"}}},
			}, ResLen: 130, ResSeed: 7}
		tail := gbRec{Locus: "TAIL", Mol: "DNA", Div: "SYN", Date: [3]int{2020, 1, 1}, Def: "tail", ResLen: 61, ResSeed: 1, Feats: []Feat{{Key: "gene", Loc: lrg(0, 9), Quals: [][]string{{"gene", "\"t\""}}}}}
		first := func(n, pad int) gbRec {
			return gbRec{Locus: "FIRST", Mol: "DNA", Div: "SYN", Date: [3]int{2020, 1, 1}, Def: "d" + strings.Repeat("x", pad), Acc: "F", Ver: "F.1", ResLen: n, ResSeed: n}
		}
		// the size of the first record as a function of its residue count; a pad of p characters in its one-line
		// definition adds exactly p bytes, which bridges the jumps at group and line ends
		seen := map[int]bool{}
		for n := 0; n <= 3700 && len(seen) < 4096; n++ {
			text, v := writeGenBank([]gts.Sequence{first(n, 0).build()})
			if v != nil {
				t.Fatalf("harness: cannot write the first record: %v", v)
			}
			for pad := 0; pad <= 12; pad++ {
				if r := (len(text) + pad) % 4096; !seen[r] {
					seen[r] = true
					if thorough() || r%2 == 0 || r >= 4096-8 || r < 8 {
						if !eb.try(c01Case{Mode: "stream", Recs: []gbRec{first(n, pad), rich, tail}}) {
							return
						}
					}
				}
			}
		}
		eb.done(thorough())
		st.note("read-boundary-sweep: %d of 4096 alignments of the second record covered", len(seen))
		// deliveries: the same streams (and the corpus files) through readers that hand the bytes over in other portions
		ed := enumPart(t, c01Prop, st, "deliveries")
		for how := 1; how < len(deliveryNames); how++ {
			for _, n := range []int{0, 61, 600, 3000} {
				for _, pad := range []int{0, 1, 2, 3} {
					if !ed.try(c01Case{Mode: "stream", Recs: []gbRec{first(n, pad), rich, tail}, Deliv: how}) {
						return
					}
				}
			}
			if !ed.try(c01Case{Mode: "record", Recs: []gbRec{rich}, Deliv: how}) {
				return
			}
			for _, f := range c01CorpusFiles() {
				if !ed.try(c01Case{Mode: "corpus", Corpus: f, Deliv: how}) {
					return
				}
			}
		}
		ed.done(true)
	}
	// the LOCUS line: every name length 1..40 against lengths of 1..8 digits (residues, or the span of a CONTIG-only
	// record), molecules, topologies and divisions - a fixed-column line whose fields must stay apart
	{
		el := enumPart(t, c01Prop, st, "locus-line")
		for nameLen := 1; nameLen <= 40; nameLen++ {
			name := strings.Repeat("LOCUSNAME_", 4)[:nameLen]
			for k, n := range []int{0, 1, 9, 10, 99, 100, 999, 1000, 1234} {
				mol := []string{"DNA", "ss-DNA", "AA", "RNA", "ds-DNA"}[(nameLen+k)%5]
				rec := gbRec{Locus: name, Mol: mol, Circ: (nameLen+k)%2 == 0, Div: []string{"", "SYN", "BCT"}[(nameLen+k)%3], Date: [3]int{2020, 2, 29}, Def: "l", ResLen: n, ResSeed: n}
				if !el.try(c01Case{Mode: "record", Recs: []gbRec{rec}}) {
					return
				}
			}
			for _, span := range []int{99999, 100000, 4641652, 12345678} {
				rec := gbRec{Locus: name, Mol: "DNA", Div: "CON", Date: [3]int{2018, 10, 11}, Def: "c", Contig: &gbContig{Acc: "U00096.3", Head: 0, Tail: span}}
				if !el.try(c01Case{Mode: "record", Recs: []gbRec{rec}}) {
					return
				}
			}
		}
		el.done(true)
	}
	// every qualifier name of the three INSDC classes (and unknown names), with an empty, a plain, a two-line and a
	// three-line value, alone and next to a second qualifier of another class
	e5 := enumPart(t, c01Prop, st, "qualifier-names")
	vals := []string{"", "plain value", "first line of the value\nsecond line", "MKLVINGKTLKGEITVEAPDAATAIKDALHAAGYDLSVEEIRIVHKEGLLTGAIQ\nSFSPPRLPSGHADAEVNYGKGLYRKLFP\nEND"}
	classes := []struct {
		names []string
		vals  []string
	}{{c01AllQuotedNames, vals}, {c01AllLiteralNames, []string{"1", "(pos:1..3,aa:Met)", "a=b"}}, {c01AllToggleNames, []string{""}}, {c01UnknownNames, vals}}
	for _, cl := range classes {
		for _, name := range cl.names {
			for _, v := range cl.vals {
				for _, extra := range [][]string{nil, {"note", "after"}, {"pseudo", ""}} {
					quals := [][]string{{name, v}}
					if extra != nil && extra[0] != name {
						quals = append(quals, extra)
					}
					rec := gbRec{Locus: "QN", Mol: "DNA", Div: "SYN", Date: [3]int{2020, 2, 29}, Def: "q", Acc: "A", Ver: "A.1", ResLen: 12, ResSeed: 3,
						Feats: []Feat{{Key: "CDS", Loc: lrg(0, 9), Quals: quals}, {Key: "gene", Loc: lrg(1, 5), Quals: [][]string{{"gene", "g"}}}}}
					if !e5.try(c01Case{Mode: "record", Recs: []gbRec{rec}}) {
						return
					}
				}
			}
		}
	}
	e5.done(true)
	// every single edit of every small location shape: L residues, one feature whose location is a leaf, a complement,
	// or a join/order of two leaves; delete/erase/slice with every (i,n), insert/embed at every i, every rotation, reverse
	e4 := enumPart(t, c01Prop, st, "pipeline-small")
	smallLs := []int{4}
	if thorough() {
		smallLs = []int{3, 5, 6}
	}
	for _, L := range smallLs {
		leaves := smallLocs(L, true, false)
		var locs []Loc
		for _, a := range leaves {
			locs = append(locs, a, lco(a))
		}
		for _, a := range leaves {
			for _, b := range leaves {
				locs = append(locs, ljn(a, b), lor(a, b), lco(ljn(a, b)))
			}
		}
		for _, raw := range locs {
			canon, ok := fromGts(toGts(raw))
			if !ok {
				continue
			}
			rec := gbRec{Locus: "SMALL", Mol: "DNA", Div: "SYN", Date: [3]int{2020, 2, 29}, Def: "small", Acc: "A", Ver: "A.1", ResLen: L, ResSeed: L,
				Feats: []Feat{{Key: "gene", Loc: canon, Quals: [][]string{{"gene", "g"}}}}}
			var ops []c01Op
			for i := 0; i <= L; i++ {
				ops = append(ops, c01Op{Op: "insert", I: i}, c01Op{Op: "embed", I: i}, c01Op{Op: "rotate", I: i})
				for n := 0; i+n <= L; n++ {
					ops = append(ops, c01Op{Op: "delete", I: i, N: n}, c01Op{Op: "erase", I: i, N: n}, c01Op{Op: "slice", I: i, N: n})
				}
			}
			ops = append(ops, c01Op{Op: "reverse"}, c01Op{Op: "concat"})
			for _, op := range ops {
				if !e4.try(c01Case{Mode: "pipeline", Recs: []gbRec{rec}, Ops: []c01Op{op}}) {
					return
				}
			}
		}
	}
	e4.done(true)
	rapidPart(t, c01Prop, st, "rapid", pick(3000, 25000), c01Gen)
}

// c01Fuzz: a byte string that gts reads AND whose re-written form gts reads again lies in the writable domain;
// from there on write∘read must be a fixed point and the second-generation output must be accepted.
func c01Fuzz(in []byte) *Violation {
	recs, errText, pi := readGenBank(string(in))
	if pi != nil || errText != "" || len(recs) == 0 {
		return nil // totality is C07's concern
	}
	seqs := make([]gts.Sequence, len(recs))
	for i, r := range recs {
		seqs[i] = r
		// a malformed standard field (e.g. DEFINITION without its indent) is kept by the reader as an "extra" field of
		// that name; extra fields are by definition fields other than the standard ones, so such a record is outside
		// the writable domain the statement quantifies over
		for _, x := range r.Fields.Extra {
			if c01StandardFields[strings.TrimSpace(x.Name)] {
				skipCase("extra-field-named-like-a-standard-field")
				return nil
			}
		}
	}
	s1, v := writeGenBank(seqs)
	if v != nil {
		return nil // writer limits on foreign input (over-wide keys) are outside the writable domain
	}
	back, errText, pi := readGenBank(s1)
	if pi != nil {
		return panicViolation("reading the writer's output", pi)
	}
	if errText != "" || len(back) != len(recs) {
		return nil // not every foreign record is in the writable domain (e.g. wrapped organism names)
	}
	seqs2 := make([]gts.Sequence, len(back))
	for i, r := range back {
		seqs2[i] = r
	}
	s2, v := writeGenBank(seqs2)
	if v != nil {
		return v
	}
	back2, errText, pi := readGenBank(s2)
	if pi != nil {
		return panicViolation("reading the second-generation output", pi)
	}
	if errText != "" || len(back2) != len(back) {
		return viol("closure", "second-generation output is rejected: %s\n%s", errText, clipStr(s2, 800))
	}
	seqs3 := make([]gts.Sequence, len(back2))
	for i, r := range back2 {
		seqs3[i] = r
	}
	s3, v := writeGenBank(seqs3)
	if v != nil {
		return v
	}
	if s3 != s2 {
		d := firstDiff(s2, s3)
		return viol("fixed-point", "write(read(x)) is not a fixed point at byte %d: %q vs %q", d, clipStr(s2[maxInt(0, d-40):], 120), clipStr(s3[maxInt(0, d-40):], 120))
	}
	return nil
}

var c01StandardFields = map[string]bool{"LOCUS": true, "DEFINITION": true, "ACCESSION": true, "VERSION": true, "DBLINK": true, "KEYWORDS": true,
	"SOURCE": true, "ORGANISM": true, "REFERENCE": true, "AUTHORS": true, "CONSRTM": true, "TITLE": true, "JOURNAL": true, "PUBMED": true,
	"REMARK": true, "COMMENT": true, "FEATURES": true, "ORIGIN": true, "CONTIG": true}

// FuzzC01 (thorough): native coverage-guided fuzzing over mutated valid records.
func FuzzC01(f *testing.F) {
	for _, name := range []string{"NC_001422_part.gb", "pBAT5.txt"} {
		if data, err := os.ReadFile(filepath.Join(corpusDir(), name)); err == nil {
			f.Add(data)
		}
	}
	rec := gbRec{Locus: "F", Mol: "DNA", Date: [3]int{2020, 1, 1}, Def: "d", ResLen: 25, Feats: []Feat{{Key: "gene", Loc: ljn(lrg(0, 3), lrg(5, 9)), Quals: [][]string{{"note", "a\nb"}, {"pseudo", ""}}}}}
	if s, v := writeGenBank([]gts.Sequence{rec.build()}); v == nil {
		f.Add([]byte(s))
	}
	f.Fuzz(func(t *testing.T, in []byte) {
		if len(in) > 1<<16 {
			return
		}
		c := c01Case{Mode: "fuzz", Input: append([]byte(nil), in...)}
		if v := c01Check(c); v != nil {
			writeFail("C01", "fuzz", mustJSON(c), v)
			t.Fatalf("VIOLATION C01/fuzz [%s]: %s", v.Kind, v.Msg)
		}
	})
}
