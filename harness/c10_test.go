package harness

// C10 — Edits are invertible: delete undoes insert/embed, concat undoes split.

import (
	"bytes"
	"fmt"
	"sort"
	"testing"

	"github.com/go-gts/gts"
	"pgregory.net/rapid"
)

type c10Case struct {
	Mode string   `json:"mode"` // "insdel" or "cutcat"
	Ins  *c02Case `json:"ins,omitempty"`
	L    int      `json:"len,omitempty"`
	Cuts []int    `json:"cuts,omitempty"`
	Feat []Feat   `json:"feats,omitempty"`
}

// deepCopySeq rebuilds a sequence from scratch (fresh byte slice, fresh location values, cloned qualifiers) so
// that aliasing defects (C11) cannot leak into this property.
func deepCopySeq(seq gts.Sequence) (gts.Sequence, bool) {
	ff := make(gts.FeatureSlice, len(seq.Features()))
	for i, f := range seq.Features() {
		ast, ok := fromGts(f.Loc)
		if !ok || !ast.wellFormed() {
			return nil, false
		}
		ff[i] = gts.NewFeature(f.Key, toGtsRaw(ast), f.Props.Clone())
	}
	return gts.New(nil, ff, append([]byte(nil), seq.Bytes()...)), true
}

func c10Check(c c10Case) *Violation {
	if c.Mode == "insdel" {
		return c10InsDel(*c.Ins)
	}
	return c10CutCat(c)
}

func c10InsDel(c c02Case) *Violation {
	hostBytes, guestBytes := idBytes(0, c.HostLen), idBytes(40, c.GuestLen)
	host := c02Carry(mod(c.Carrier, 2), "HOST", c.Host, hostBytes)
	guest := c02Carry(mod(c.Carrier, 2), "GUEST", c.Guest, guestBytes)
	name := "Insert"
	if c.Embed {
		name = "Embed"
	}
	var mid, back gts.Sequence
	if pi := guard(func() {
		if c.Embed {
			mid = gts.Embed(host, c.Index, guest)
		} else {
			mid = gts.Insert(host, c.Index, guest)
		}
	}); pi != nil {
		return panicViolation(name, pi)
	}
	cp, ok := deepCopySeq(mid)
	if !ok {
		return viol("malformed", "%s produced a malformed location", name)
	}
	if pi := guard(func() { back = gts.Delete(cp, c.Index, c.GuestLen) }); pi != nil {
		return panicViolation(name+";Delete", pi)
	}
	what := fmt.Sprintf("%s(i=%d,n=%d);Delete L=%d", name, c.Index, c.GuestLen, c.HostLen)
	if !bytes.Equal(back.Bytes(), hostBytes) {
		return viol("bytes", "%s: residues %q, want %q", what, back.Bytes(), hostBytes)
	}
	got := byLabel(back.Features())
	for _, f := range c.Host {
		gg := got[f.label()]
		if len(gg) != multOf(c.Host, f) {
			return viol("presence", "%s: host feature %s present %d times, want %d", what, f.label(), len(gg), multOf(c.Host, f))
		}
		siteCheck = nil
		if !hasResidue(den(f.Loc)) {
			siteCheck = expectSites(den(f.Loc)) // a site-only feature comes back to where it was
		}
		v := compareFeature(fmt.Sprintf("%s host %s %s", what, f.label(), f.Loc), gg[0], f, den(f.Loc), markers(f.Loc), c.HostLen)
		siteCheck = nil
		if v != nil {
			return v
		}
		// the restored location must also survive its own text form (a re-merged join prints and re-parses to the same meaning)
		s := gg[0].Loc.String()
		var re gts.Location
		var err error
		if pi := guard(func() { re, err = gts.AsLocation(s) }); pi != nil {
			return panicViolation("AsLocation("+s+")", pi)
		}
		if err != nil {
			return viol("reparse", "%s: restored location %q does not parse: %v", what, s, err)
		}
		if v := compareFeature(fmt.Sprintf("%s host %s reparsed %q", what, f.label(), s), gts.NewFeature(f.Key, re, propsOf(f.Quals)), f, den(f.Loc), markers(f.Loc), c.HostLen); v != nil {
			v.Kind = "reparse-" + v.Kind
			return v
		}
	}
	return nil
}

type posStrand struct {
	Pos int
	Rev bool
}

func resSet(d []Elem) []posStrand {
	seen := map[posStrand]bool{}
	for _, e := range d {
		if !e.Site {
			seen[posStrand{e.Pos, e.Rev}] = true
		}
	}
	out := make([]posStrand, 0, len(seen))
	for k := range seen {
		out = append(out, k)
	}
	sort.Slice(out, func(i, j int) bool {
		if out[i].Pos != out[j].Pos {
			return out[i].Pos < out[j].Pos
		}
		return !out[i].Rev && out[j].Rev
	})
	return out
}

func c10CutCat(c c10Case) *Violation {
	orig := idBytes(0, c.L)
	seq := gts.New(nil, featsToGts(c.Feat), append([]byte(nil), orig...))
	cuts := append([]int{0}, c.Cuts...)
	cuts = append(cuts, c.L)
	sort.Ints(cuts)
	var pieces []gts.Sequence
	for k := 0; k+1 < len(cuts); k++ {
		var piece gts.Sequence
		a, b := cuts[k], cuts[k+1]
		if pi := guard(func() { piece = gts.Slice(seq, a, b) }); pi != nil {
			return panicViolation(fmt.Sprintf("Slice(%d,%d)", a, b), pi)
		}
		cp, ok := deepCopySeq(piece)
		if !ok {
			return viol("malformed", "Slice(%d,%d) produced a malformed location", a, b)
		}
		pieces = append(pieces, cp)
	}
	var cat gts.Sequence
	if pi := guard(func() { cat = gts.Concat(pieces...) }); pi != nil {
		return panicViolation("Concat", pi)
	}
	what := fmt.Sprintf("cut %v of L=%d then Concat", c.Cuts, c.L)
	if !bytes.Equal(cat.Bytes(), orig) {
		return viol("bytes", "%s: residues %q, want %q", what, cat.Bytes(), orig)
	}
	union, perFeature := map[string][]Elem{}, map[string][][]Elem{}
	for _, f := range cat.Features() {
		ast, ok := fromGts(f.Loc)
		if !ok || !ast.wellFormed() {
			return viol("malformed", "%s: malformed location %#v", what, f.Loc)
		}
		if !ast.inBounds(c.L) {
			return viol("bounds", "%s: location %s outside the sequence", what, ast)
		}
		union[labelOf(f)] = append(union[labelOf(f)], den(ast)...)
		perFeature[labelOf(f)] = append(perFeature[labelOf(f)], den(ast))
	}
	known := map[string]bool{}
	for _, f := range c.Feat {
		known[f.label()] = true
		want, got := resSet(den(f.Loc)), resSet(union[f.label()])
		if fmt.Sprint(want) != fmt.Sprint(got) {
			return viol("denotation", "%s: feature %s %s: pieces denote %v, original %v", what, f.label(), f.Loc, got, want)
		}
		// a table may list a feature twice, verbatim: every copy is cut and carried along, so every residue of the
		// feature lies in as many pieces as there are copies
		if m := multOf(c.Feat, f); m > 1 {
			for _, ps := range want {
				n := 0
				for _, d := range perFeature[f.label()] {
					for _, e := range d {
						if !e.Site && e.Pos == ps.Pos && e.Rev == ps.Rev {
							n++
							break
						}
					}
				}
				if n != m {
					return viol("copies", "%s: feature %s %s is listed %d times; residue %v lies in %d of the pieces, want %d", what, f.label(), f.Loc, m, ps, n, m)
				}
			}
		}
	}
	for l := range union {
		if !known[l] {
			return viol("invented", "%s: feature %q appeared", what, l)
		}
	}
	return nil
}

func c10Classify(c c10Case) (bool, []string) {
	if c.Mode == "insdel" {
		nt, labels := c02Classify(*c.Ins)
		return nt, append(labels, "insdel")
	}
	labels := []string{"cutcat", fmt.Sprintf("cuts=%d", len(c.Cuts))}
	inside := false
	for _, f := range c.Feat {
		for _, x := range f.Loc.leaves() {
			for _, k := range c.Cuts {
				if (x.K == "rg" || x.K == "am") && x.A < k && k < x.B {
					inside = true
				}
			}
		}
	}
	if inside {
		labels = append(labels, "cut-inside-part")
	}
	return inside, labels
}

func c10KF(c c10Case, v *Violation) []string {
	var sigs []string
	if c.Mode == "cutcat" && v.Kind == "denotation" {
		cuts := append([]int{0}, c.Cuts...)
		cuts = append(cuts, c.L)
		sort.Ints(cuts)
		for _, f := range c.Feat {
			for k := 0; k+1 < len(cuts); k++ {
				if pointAbsorbed(sliceLoc(f.Loc, c.L, cuts[k], cuts[k+1])) {
					sigs = append(sigs, "join-range-then-point-drops-point")
				}
			}
		}
	}
	if c.Mode == "insdel" && (v.Kind == "denotation" || v.Kind == "reparse-denotation") {
		for _, f := range c.Ins.Host {
			exp := insertLoc(f.Loc, c.Ins.Index, c.Ins.GuestLen)
			if c.Ins.Embed {
				exp = embedLocExp(f.Loc, c.Ins.Index, c.Ins.GuestLen)
			}
			r, t1 := reduceSim(exp)
			_, t2 := reduceSim(deleteLoc(r, c.Ins.Index, c.Ins.GuestLen))
			if t1 || t2 {
				sigs = append(sigs, "join-range-then-point-drops-point")
			}
		}
	}
	return sigs
}

var c10Prop = &Prop[c10Case]{ID: "C10", Check: c10Check, Classify: c10Classify, KF: c10KF}

func init() { registerReplay(c10Prop) }

func c10Gen(t *rapid.T) c10Case {
	if rapid.Bool().Draw(t, "mode") {
		ins := c02Gen(t)
		return c10Case{Mode: "insdel", Ins: &ins}
	}
	L := drawLen(t, 1, 14, "L")
	nc := drawCount(t, 0, 4, 12, "ncuts")
	cuts := make([]int, nc)
	for i := range cuts {
		cuts[i] = rapid.IntRange(0, L).Draw(t, "cut")
	}
	hot := []int{0, L}
	for _, k := range cuts {
		hot = append(hot, hotAround(L, k, 0)...)
	}
	cfg := locCfg{L: L, Hot: hot, MaxDepth: 3, MaxParts: scopeParts(4), Ambig: true, Sites: true}
	return c10Case{Mode: "cutcat", L: L, Cuts: cuts, Feat: addTwins(t, genFeats(t, cfg, drawCount(t, 0, 4, 9, "nfeat"), "f", true), "f")}
}

func TestC10(t *testing.T) {
	st := newStats("C10")
	defer st.flush()
	// big tables: 13 .. 4099 features (sizes around every power of two, where sort routines, worker pools and block
	// loops change their ways) of short ranges spread over the sequence, every tenth complemented, every seventh a
	// join; insert;delete and embed;delete at the start, in the middle, near the end; cut;concat at three cuts
	eb := enumPart(t, c10Prop, st, "big-tables")
	for _, nf := range []int{13, 16, 17, 32, 33, 65, 129, 257, 513, 1023, 1024, 1025, 1027, 2049, 4099} {
		if nf > 1100 && !thorough() {
			continue
		}
		L := 10*nf + 30
		var ff []Feat
		for i := 0; i < nf; i++ {
			var l Loc = lrg(10*i+2, 10*i+8)
			if i%7 == 3 {
				l = ljn(lrg(10*i+1, 10*i+4), lrg(10*i+6, 10*i+9))
			}
			if i%10 == 5 {
				l = lco(l)
			}
			canon, _ := fromGts(toGts(l))
			ff = append(ff, Feat{Key: []string{"gene", "CDS", "misc_feature"}[i%3], Loc: canon, Quals: [][]string{{"label", fmt.Sprintf("h%d", i)}}})
		}
		for _, idx := range []int{0, 5, L / 2, L - 25, L} {
			for _, embed := range []bool{false, true} {
				ins := c02Case{HostLen: L, GuestLen: 5, Index: idx, Embed: embed, Host: ff}
				if !eb.try(c10Case{Mode: "insdel", Ins: &ins}) {
					return
				}
			}
		}
		if !eb.try(c10Case{Mode: "cutcat", L: L, Cuts: []int{5, L / 2, L - 25}, Feat: ff}) {
			return
		}
	}
	eb.done(thorough())
	rapidPart(t, c10Prop, st, "rapid", pick(30000, 250000), c10Gen)
	if t.Failed() {
		return
	}
	rapidLargePart(t, c10Prop, st, pick(1500, 20000), c10Gen)
	if t.Failed() {
		return
	}
	rapidTwinsPart(t, c10Prop, st, pick(4000, 40000), c10Gen)
	if t.Failed() {
		return
	}
	maxL := pick(4, 6)
	e := enumPart(t, c10Prop, st, "exhaustive-small")
	for L := 0; L <= maxL; L++ {
		leaves := smallLocs(L, true, true)
		var locs []Loc
		for _, a := range leaves {
			locs = append(locs, a, lco(a))
		}
		for _, a := range leaves {
			for _, b := range leaves {
				if a.K == "am" || b.K == "am" {
					continue
				}
				locs = append(locs, ljn(a, b), lor(a, b), lco(ljn(a, b)))
			}
		}
		for _, raw := range locs {
			canon, _ := fromGts(toGts(raw))
			feats := []Feat{{Key: "gene", Loc: canon, Quals: [][]string{{"label", "h0"}}}}
			for i := 0; i <= L; i++ {
				for _, n := range []int{1, 2, 3} {
					for _, emb := range []bool{false, true} {
						ins := c02Case{HostLen: L, GuestLen: n, Index: i, Embed: emb, Host: feats}
						if !e.try(c10Case{Mode: "insdel", Ins: &ins}) {
							return
						}
					}
				}
				if L == 0 {
					continue
				}
				for j := i; j <= L; j++ {
					if !e.try(c10Case{Mode: "cutcat", L: L, Cuts: []int{i, j}, Feat: feats}) {
						return
					}
				}
			}
		}
	}
	e.done(true)
}
