package harness

// C07 — Parsers are total: malformed input gives an error, never a panic or hang.

import (
	"bytes"
	"context"
	"fmt"
	"io"
	"os"
	"os/exec"
	"path/filepath"
	"regexp"
	"strconv"
	"strings"
	"sync"
	"syscall"
	"testing"
	"time"

	"github.com/go-gts/gts"
	"github.com/go-gts/gts/seqio"
	"github.com/go-pars/pars"
	"pgregory.net/rapid"
)

type c07Case struct {
	Target string `json:"target"` // scan, table, location, locator, modifier, selector, date, molecule, topology
	Input  []byte `json:"input,omitempty"`
	Corpus string `json:"corpus,omitempty"` // scan: base file (Input empty) ...
	Trunc  int    `json:"trunc,omitempty"`  // ... truncated to this many bytes (-1 = whole file)
	CRLF   bool   `json:"crlf,omitempty"`
	How    string `json:"how,omitempty"`   // how the input was produced (classification only)
	Shape  string `json:"shape,omitempty"` // Target "scale": input family (c07Shapes) ...
	N      int    `json:"n,omitempty"`     // ... and its smallest size parameter (0 = the shape's default)
	Deliv  int    `json:"deliv,omitempty"` // scan: how the reader hands the bytes over (deliveryNames)
	Then   string `json:"then,omitempty"`  // scan: "fasta" = the input is also scanned with a complete FASTA record behind it
}

var (
	corpusMu    sync.Mutex
	corpusCache = map[string][]byte{}
)

func corpusFile(name string) []byte {
	corpusMu.Lock()
	defer corpusMu.Unlock()
	if d, ok := corpusCache[name]; ok {
		return d
	}
	base, times := name, 1
	if strings.HasPrefix(name, "2x:") {
		// a virtual two-record stream: the file twice
		base, times = name[3:], 2
	}
	d, err := os.ReadFile(filepath.Join(corpusDir(), base))
	if err != nil {
		panic(err)
	}
	d = bytes.Repeat(d, times)
	corpusCache[name] = d
	return d
}

func (c c07Case) input() []byte {
	in := c.Input
	if c.Corpus != "" {
		in = corpusFile(c.Corpus)
		if c.CRLF {
			in = []byte(crlf(string(in)))
		}
		if c.Trunc >= 0 && c.Trunc <= len(in) {
			in = in[:c.Trunc]
		}
		return in
	}
	if c.CRLF {
		in = []byte(crlf(string(in)))
	}
	return in
}

// withWatchdog runs f under a generous ceiling (>10^4 times the measured normal cost). hung=true means the call did
// not return; its goroutine is then still running in this process, so the caller must not evaluate anything else
// (the framework stops using the process for further cases once a "hang" violation is returned).
func withWatchdog(size int, f func()) (pi *PanicInfo, hung bool) {
	ceiling := 20*time.Second + time.Duration(size)*200*time.Microsecond
	done := make(chan *PanicInfo, 1)
	go func() { done <- guard(f) }()
	select {
	case pi := <-done:
		return pi, false
	case <-time.After(ceiling):
		return nil, true
	}
}

type scanned struct {
	recs  []gts.Sequence
	err   error
	quiet bool // Scan returned false and Err() == nil
}

func scanAll(in []byte, how ...int) scanned {
	var s scanned
	var src io.Reader = bytes.NewReader(in)
	if len(how) > 0 && how[0] != 0 {
		src = deliver(in, how[0])
	}
	sc := seqio.NewAutoScanner(src)
	for sc.Scan() {
		s.recs = append(s.recs, sc.Value())
		if len(s.recs) > 10000 {
			break
		}
	}
	s.err = sc.Err()
	s.quiet = s.err == nil
	return s
}

var keylineRe = regexp.MustCompile(`^( +)([A-Za-z0-9_]+)( +)(\S.*\n?)$`)
var originLineRe = regexp.MustCompile(`^ *[0-9]+(?: [!-~]{1,10}){1,6}$`)
var locusRe = regexp.MustCompile(`^LOCUS[ \t]+\S+[ \t]+(-?[0-9]+) (?:bp|aa)`)

// gbRecordFacts reads, independently of gts, what a GenBank record's text declares: the LOCUS length and the
// number of residues in its ORIGIN block. countable=false when the block is not laid out line by line in the
// canonical way (then the harness does not claim to know the residue count).
type gbFacts struct {
	declared  int
	hasLocus  bool
	hasOrigin bool
	residues  int
	countable bool
}

var quotedQualRe = regexp.MustCompile(`^\s*/[A-Za-z0-9_]+="(.*)$`)

// closesQuote reports whether s (text after an opening quote) contains the closing quote: a double quote
// that is not doubled.
func closesQuote(s string) bool {
	for i := 0; i < len(s); i++ {
		if s[i] == '"' {
			if i+1 < len(s) && s[i+1] == '"' {
				i++
				continue
			}
			return true
		}
	}
	return false
}

func gbRecordFacts(text string) []gbFacts {
	var out []gbFacts
	var cur *gbFacts
	inOrigin := false
	inTable, inQuote := false, false
	// gts (go-pars) ends a line at LF, CRLF or a lone CR
	lines := strings.Split(strings.ReplaceAll(strings.ReplaceAll(text, "\r\n", "\n"), "\r", "\n"), "\n")
	for _, ln := range lines {
		// a quoted qualifier value runs until its closing quote, whatever the lines in between look like: a field
		// name inside it is grammatically not a field, and the harness then makes no claim about the record
		if inTable && inQuote {
			if strings.HasPrefix(ln, "LOCUS") || strings.HasPrefix(ln, "ORIGIN") || strings.HasPrefix(ln, "CONTIG") || strings.HasPrefix(ln, "//") {
				if cur != nil {
					cur.countable = false
				}
			}
			if closesQuote(ln) {
				inQuote = false
			}
			if !strings.HasPrefix(ln, "//") {
				continue
			}
		}
		if m := locusRe.FindStringSubmatch(ln); m != nil && !inOrigin {
			if cur != nil {
				cur.countable = false // a second LOCUS line inside a record: which one declares the length is unclear
				continue
			}
			out = append(out, gbFacts{countable: true})
			cur = &out[len(out)-1]
			cur.declared, _ = strconv.Atoi(m[1])
			cur.hasLocus = true
			continue
		}
		if cur == nil {
			continue
		}
		if strings.HasPrefix(ln, "//") {
			inOrigin, inTable, inQuote = false, false, false
			cur = nil
			continue
		}
		if strings.HasPrefix(ln, "FEATURES") {
			inTable = true
			continue
		}
		if strings.HasPrefix(ln, "ORIGIN") {
			inTable = false
			inOrigin = true
			cur.hasOrigin = true
			continue
		}
		if inTable {
			if m := quotedQualRe.FindStringSubmatch(ln); m != nil && !closesQuote(m[1]) {
				inQuote = true
			}
			continue
		}
		if inOrigin {
			if !originLineRe.MatchString(ln) {
				cur.countable = false
				continue
			}
			f := strings.Fields(ln)
			for _, g := range f[1:] {
				cur.residues += len(g)
			}
		}
	}
	return out
}

var (
	fullParseMu sync.Mutex
	fullParse   = map[string][]seqio.GenBank{}
	recordEnds  = map[string][]int{} // byte offsets just after each record's "//" line
)

func corpusFull(name string, crlfMode bool) ([]seqio.GenBank, []int) {
	key := fmt.Sprintf("%s/%v", name, crlfMode)
	fullParseMu.Lock()
	defer fullParseMu.Unlock()
	if r, ok := fullParse[key]; ok {
		return r, recordEnds[key]
	}
	in := corpusFile(name)
	if crlfMode {
		in = []byte(crlf(string(in)))
	}
	recs, _, _ := readGenBank(string(in))
	var ends []int
	off := 0
	for _, ln := range strings.SplitAfter(string(in), "\n") {
		off += len(ln)
		if strings.HasPrefix(ln, "//") {
			ends = append(ends, off)
		}
	}
	fullParse[key], recordEnds[key] = recs, ends
	return recs, ends
}

var c07Table = gts.FeatureSlice{
	gts.NewFeature("source", gts.Range(0, 20), gts.Props{{"organism", "x"}}),
	gts.NewFeature("gene", gts.Join(gts.Range(2, 5), gts.Range(8, 12)), gts.Props{{"gene", "a"}, {"note", "n1", "n2"}}),
	gts.NewFeature("CDS", gts.Range(3, 9).Complement(), gts.Props{{"product", "p"}}),
}

func c07Check(c c07Case) *Violation {
	resetQualifierRegistries()
	defer resetQualifierRegistries()
	if c.Target == "scale" {
		return c07ScaleCheck(c)
	}
	in := c.input()
	what := fmt.Sprintf("%s(%s %q)", c.Target, c.How, clipStr(string(in), 80))
	switch c.Target {
	case "scan":
		// a record that declares far more bases than the input could hold is first read in a child process with a
		// limited address space: a reader that sizes its memory by the declared number instead of by the input dies
		// there (unrecoverably), not here
		if huge := c07HugeDeclared(in); huge > 0 {
			if v := c07ScanInChild(what, in, c.Deliv, huge); v != nil {
				return v
			}
		}
		var s scanned
		pi, hung := withWatchdog(len(in), func() { s = scanAll(in, c.Deliv) })
		if hung {
			return viol("hang", "%s: scanning %d bytes did not finish within the ceiling", what, len(in))
		}
		if pi != nil {
			return panicViolation(what, pi)
		}
		// touching the values must not panic either (lazy ORIGIN decode)
		for i, r := range s.recs {
			if r == nil {
				return viol("nil-record", "%s: record %d is nil", what, i)
			}
			var n int
			var b []byte
			if pi := guard(func() { n = gts.Len(r); b = r.Bytes(); _ = r.Features(); _ = r.Info() }); pi != nil {
				return panicViolation(what+" accessing record", pi)
			}
			if n < 0 {
				return viol("negative-length", "%s: record %d has Len() = %d", what, i, n)
			}
			if n != len(b) {
				return viol("length-mismatch", "%s: record %d has Len() = %d but %d residues", what, i, n, len(b))
			}
		}
		// consistency with what the text declares
		if s.err == nil {
			facts := gbRecordFacts(string(in))
			ngb := 0
			for _, r := range s.recs {
				if _, ok := r.(seqio.GenBank); ok {
					ngb++
				}
			}
			if ngb != len(facts) {
				// the harness's line-based reading and gts disagree about where records start: no claim is made
				skipCase("record-count-mismatch")
				facts = nil
			}
			gi := 0
			for i, r := range s.recs {
				if _, ok := r.(seqio.GenBank); !ok {
					continue
				}
				if gi >= len(facts) {
					break
				}
				f := facts[gi]
				gi++
				if !f.hasOrigin || !f.countable {
					continue
				}
				n := gts.Len(r)
				if n != f.declared || n != f.residues {
					return viol("inconsistent-accepted", "%s: record %d accepted with %d residues although LOCUS declares %d and the ORIGIN block holds %d", what, i, n, f.declared, f.residues)
				}
			}
		}
		// a record of the other format behind the input: what was an error stays an error (a record that is cut short is
		// not dropped in silence because something readable follows it)
		if c.Then == "fasta" && s.err != nil {
			var s2 scanned
			in2 := append(append([]byte{}, in...), []byte(">a complete record behind the cut\nACGTACGTAC\n")...)
			pi, hung := withWatchdog(len(in2), func() { s2 = scanAll(in2, c.Deliv) })
			if hung {
				return viol("hang", "%s followed by a FASTA record: did not finish within the ceiling", what)
			}
			if pi != nil {
				return panicViolation(what+" followed by a FASTA record", pi)
			}
			if s2.err == nil {
				return viol("truncation-silent", "%s: alone the input is rejected (%v); with a complete FASTA record behind it the scanner returns %d record(s) and no error", what, s.err, len(s2.recs))
			}
		}
		// truncation: records are a prefix of the full parse; a cut inside a record is an error, not silence
		if c.Corpus != "" && strings.HasSuffix(c.Corpus, ".gb") || strings.HasSuffix(c.Corpus, ".txt") {
			full, ends := corpusFull(c.Corpus, c.CRLF)
			// a record is complete once its "//" has been read: the line end (LF, CRLF or a lone CR) may be cut off
			complete := 0
			boundary := len(in) == 0
			for _, e := range ends {
				if e-2 <= len(in) {
					complete++
				}
				if e-2 <= len(in) && len(in) <= e {
					boundary = true
				}
			}
			if len(s.recs) > len(full) {
				return viol("truncation", "%s: %d records from a prefix of a file that holds %d", what, len(s.recs), len(full))
			}
			for i, r := range s.recs {
				gb, ok := r.(seqio.GenBank)
				if !ok {
					return viol("truncation", "%s: record %d is %T", what, i, r)
				}
				if v := compareRecords(fmt.Sprintf("%s record %d vs full parse", what, i), full[i], gb); v != nil {
					v.Kind = "truncation"
					return v
				}
			}
			if !boundary && len(in) > 0 {
				if len(s.recs) > complete {
					return viol("truncation", "%s: %d records returned but only %d are complete in the prefix", what, len(s.recs), complete)
				}
				if s.err == nil {
					return viol("truncation-silent", "%s: input cut inside record %d is read as %d records without an error", what, complete, len(s.recs))
				}
			}
		}
		return nil
	case "table":
		var err error
		var val interface{}
		pi, hung := withWatchdog(len(in), func() {
			var res pars.Result
			res, err = seqio.INSDCTableParser("").Parse(pars.FromBytes(in))
			val = res.Value
		})
		if hung {
			return viol("hang", "%s: did not finish", what)
		}
		if pi != nil {
			return panicViolation(what, pi)
		}
		if err == nil {
			if _, ok := val.([]gts.Feature); !ok {
				return viol("value-xor-error", "%s: no error but value is %T", what, val)
			}
		}
		return nil
	}
	text := string(in)
	var v *Violation
	pi, hung := withWatchdog(len(in), func() {
		switch c.Target {
		case "location":
			loc, err := gts.AsLocation(text)
			if (loc == nil) == (err == nil) {
				v = viol("value-xor-error", "%s: value %v, error %v", what, loc, err)
				return
			}
			if err == nil {
				_ = loc.String()
				_ = loc.Len()
			}
		case "locator":
			loc, err := gts.AsLocator(text)
			if (loc == nil) == (err == nil) {
				v = viol("value-xor-error", "%s: locator nil=%v, error %v", what, loc == nil, err)
				return
			}
			if err == nil {
				seq := gts.New(nil, c07Table, []byte("acgtacgtacgtacgtacgt"))
				rr := loc(seq)
				for _, r := range rr {
					_ = r.Len()
					_ = r.Head()
				}
			}
		case "modifier":
			m, err := gts.AsModifier(text)
			if (m == nil) == (err == nil) {
				v = viol("value-xor-error", "%s: value %v, error %v", what, m, err)
				return
			}
			if err == nil {
				_ = m.String()
				m.Apply(3, 9)
				m.Apply(9, 3)
			}
		case "selector":
			f, err := gts.Selector(text)
			if f == nil {
				v = viol("value-xor-error", "%s: nil filter (error %v)", what, err)
				return
			}
			if err == nil {
				for _, x := range c07Table {
					f(x)
				}
			}
		case "date":
			d, err := seqio.AsDate(text)
			if err == nil {
				if d.Day < 1 || d.Day > 31 || d.Month < 1 || d.Month > 12 {
					v = viol("value-xor-error", "%s: accepted as %v", what, d)
					return
				}
				_ = d.ToTime()
			}
		case "molecule":
			m, err := gts.AsMolecule(text)
			if (err == nil) == (m == "") {
				v = viol("value-xor-error", "%s: value %q, error %v", what, m, err)
			}
		case "topology":
			tp, err := gts.AsTopology(text)
			if err == nil && tp != gts.Linear && tp != gts.Circular {
				v = viol("value-xor-error", "%s: value %v without error", what, tp)
			}
		}
	})
	if hung {
		return viol("hang", "%s: did not finish within the ceiling", what)
	}
	if pi != nil {
		return panicViolation(what, pi)
	}
	return v
}

func c07Classify(c c07Case) (bool, []string) {
	labels := []string{"target:" + c.Target}
	if c.Target == "scale" {
		return true, append(labels, "shape:"+c.Shape)
	}
	if c.How != "" {
		labels = append(labels, "how:"+strings.SplitN(strings.SplitN(c.How, " ", 2)[0], "+", 2)[0])
		if strings.Contains(c.How, "+") {
			labels = append(labels, "two-mutations")
		}
	}
	if c.CRLF {
		labels = append(labels, "crlf")
	}
	if c.Corpus != "" && c.Trunc >= 0 {
		labels = append(labels, "truncation")
	}
	return c.How != "valid" && len(c.input()) > 0, labels
}

func c07KF(c c07Case, v *Violation) []string { return nil }

var c07Prop = &Prop[c07Case]{ID: "C07", Check: c07Check, Classify: c07Classify, KF: c07KF}

func init() { registerReplay(c07Prop) }

// ---- mutators -----------------------------------------------------------------------------------

var c07Hostile = []string{"DBLINK      X:", "DBLINK      X", "REFERENCE   1234", "REFERENCE   ", "LOCUS", "ORIGIN", "ORIGIN      ", "//", "FEATURES", "CONTIG      join(",
	"CONTIG      join(A:1..", "ABCDEFGHIJKLMN   x", "  ORGANISM", "            ", "     gene            ", "     misc_recombination_x 1..20", "     gene 1..20", "                     /note=\"", "                     /", "        1 ", ">", "\r", "\x00",
	"ACCESSION   X REGION: 5..4", "ACCESSION   X REGION: 1..0", "ACCESSION   X REGION: <8..>7", "ACCESSION   X REGION: 10..2", "ACCESSION   X REGION: 0..0", "ACCESSION   X REGION: 3",
	"ACCESSION   X REGION: complement(1..2)", "ACCESSION   X REGION: 99999999999999999999..1", "VERSION     ", "KEYWORDS    ", "CONTIG      join(A:5..4)", "CONTIG      join(A.1:0..0)"}

// c07BlankFields: every field name of the flat file with its value replaced by nothing but 0..3 blanks.
var c07BlankFields = func() []string {
	var out []string
	for _, name := range []string{"LOCUS", "DEFINITION", "ACCESSION", "VERSION", "DBLINK", "KEYWORDS", "SOURCE", "  ORGANISM", "REFERENCE", "  AUTHORS", "  CONSRTM",
		"  TITLE", "  JOURNAL", "   PUBMED", "  REMARK", "COMMENT", "FEATURES", "ORIGIN", "CONTIG", "XFIELD"} {
		for k := 0; k <= 3; k++ {
			out = append(out, fmt.Sprintf("%-12s", name)+strings.Repeat(" ", k))
		}
	}
	return out
}()

func c07MutateText(t *rapid.T, text string) (string, string) {
	lines := strings.SplitAfter(text, "\n")
	pickLine := func(name string) int { return rapid.IntRange(0, len(lines)-1).Draw(t, name) }
	switch rapid.IntRange(0, 16).Draw(t, "mutkind") {
	case 15:
		// a value made of blanks only: the line keeps its first 12 columns, the rest becomes 0..3 blanks
		i := pickLine("blankval")
		ln := strings.TrimRight(lines[i], "\r\n")
		if len(ln) > 12 {
			lines[i] = ln[:12] + strings.Repeat(" ", rapid.IntRange(0, 3).Draw(t, "nblank")) + lines[i][len(ln):]
		}
		return strings.Join(lines, ""), "blank-value"
	case 16:
		// a field whose value is blank, put in place of a line or after it
		i := pickLine("blankfield")
		f := rapid.SampledFrom(c07BlankFields).Draw(t, "bf") + "\n"
		if rapid.Bool().Draw(t, "bfreplace") {
			lines[i] = f
		} else {
			lines[i] += f
		}
		return strings.Join(lines, ""), "blank-field"
	case 14:
		// feature key lines: widen a key beyond the key column, or shrink the blanks between key and location
		var idx []int
		for i, ln := range lines {
			if keylineRe.MatchString(ln) {
				idx = append(idx, i)
			}
		}
		if len(idx) == 0 {
			return text, "valid"
		}
		i := idx[rapid.IntRange(0, len(idx)-1).Draw(t, "kline")]
		m := keylineRe.FindStringSubmatch(lines[i])
		switch rapid.IntRange(0, 2).Draw(t, "kchange") {
		case 0:
			lines[i] = m[1] + m[2] + strings.Repeat("_x", rapid.IntRange(1, 8).Draw(t, "kgrow")) + m[3] + m[4]
		case 1:
			lines[i] = m[1] + m[2] + " " + m[4]
		default:
			lines[i] = m[1] + m[2] + m[3] + "  " + m[4]
		}
		return strings.Join(lines, ""), "feature-key"
	case 0:
		k := rapid.IntRange(0, len(text)).Draw(t, "trunc")
		return text[:k], "truncate"
	case 1:
		i := pickLine("del")
		return strings.Join(append(append([]string{}, lines[:i]...), lines[i+1:]...), ""), "delete-line"
	case 2:
		i := pickLine("dup")
		return strings.Join(append(append(append([]string{}, lines[:i+1]...), lines[i]), lines[i+1:]...), ""), "duplicate-line"
	case 3:
		i, j := pickLine("swapa"), pickLine("swapb")
		ls := append([]string{}, lines...)
		ls[i], ls[j] = ls[j], ls[i]
		return strings.Join(ls, ""), "swap-lines"
	case 4:
		// change the declared length
		m := locusRe.FindStringSubmatchIndex(text)
		if m == nil {
			return text, "valid"
		}
		old, _ := strconv.Atoi(text[m[2]:m[3]])
		nv := rapid.SampledFrom([]int{old + 1, old - 1, old + 10, old + 60, 0, -1, old * 10, 1 << 40, 9223372036854775807, old / 2}).Draw(t, "newlen")
		return text[:m[2]] + strconv.Itoa(nv) + text[m[3]:], "declared-length"
	case 5:
		i := pickLine("indent")
		if strings.HasPrefix(lines[i], " ") && rapid.Bool().Draw(t, "shrink") {
			lines[i] = lines[i][1:]
		} else {
			lines[i] = " " + lines[i]
		}
		return strings.Join(lines, ""), "indent"
	case 6:
		// drop a field value: keep only the first word of the line
		i := pickLine("dropval")
		f := strings.Fields(lines[i])
		if len(f) > 0 {
			lines[i] = f[0] + "\n"
		}
		return strings.Join(lines, ""), "drop-value"
	case 7:
		k := rapid.IntRange(0, maxInt(len(text)-1, 0)).Draw(t, "flip")
		if len(text) == 0 {
			return text, "valid"
		}
		b := []byte(text)
		b[k] = byte(rapid.IntRange(0, 255).Draw(t, "byte"))
		return string(b), "flip-byte"
	case 8:
		k := rapid.IntRange(0, len(text)).Draw(t, "ins")
		return text[:k] + string([]byte{byte(rapid.IntRange(0, 255).Draw(t, "byte"))}) + text[k:], "insert-byte"
	case 9:
		if len(text) == 0 {
			return text, "valid"
		}
		k := rapid.IntRange(0, len(text)-1).Draw(t, "delb")
		return text[:k] + text[k+1:], "delete-byte"
	case 10:
		i := pickLine("hostile")
		h := rapid.SampledFrom(c07Hostile).Draw(t, "hostileline")
		return strings.Join(append(append(append([]string{}, lines[:i]...), h+"\n"), lines[i:]...), ""), "hostile-line"
	case 11:
		// shorten or lengthen one ORIGIN line
		var idx []int
		for i, ln := range lines {
			if originLineRe.MatchString(strings.TrimRight(ln, "\r\n")) {
				idx = append(idx, i)
			}
		}
		if len(idx) == 0 {
			return text, "valid"
		}
		i := idx[rapid.IntRange(0, len(idx)-1).Draw(t, "oline")]
		ln := strings.TrimRight(lines[i], "\n")
		switch rapid.IntRange(0, 2).Draw(t, "ochange") {
		case 0:
			ln = ln[:rapid.IntRange(0, len(ln)).Draw(t, "ocut")]
		case 1:
			ln += "acgt"
		default:
			ln += " acgtacgtac"
		}
		lines[i] = ln + "\n"
		return strings.Join(lines, ""), "origin-line"
	case 12:
		// replace a field name by a wide one
		i := pickLine("wide")
		if len(lines[i]) > 0 && lines[i][0] >= 'A' && lines[i][0] <= 'Z' {
			f := strings.Fields(lines[i])
			lines[i] = strings.Replace(lines[i], f[0], rapid.SampledFrom([]string{"ABCDEFGHIJKLM", "ABCDEFGHIJKLMNOPQRS", "X"}).Draw(t, "widename"), 1)
		}
		return strings.Join(lines, ""), "field-name"
	default:
		// remove everything after some line (drops the terminator), or the terminator only
		i := pickLine("cutlines")
		return strings.Join(lines[:i], ""), "cut-lines"
	}
}

func c07MutateString(t *rapid.T, s string, alphabet string) string {
	b := []byte(s)
	n := rapid.IntRange(0, 3).Draw(t, "nmut")
	for k := 0; k < n; k++ {
		switch rapid.IntRange(0, 3).Draw(t, "smut") {
		case 0:
			if len(b) > 0 {
				i := rapid.IntRange(0, len(b)-1).Draw(t, "i")
				b = append(b[:i:i], b[i+1:]...)
			}
		case 1:
			i := rapid.IntRange(0, len(b)).Draw(t, "i")
			ch := alphabet[rapid.IntRange(0, len(alphabet)-1).Draw(t, "ch")]
			b = append(b[:i:i], append([]byte{ch}, b[i:]...)...)
		case 2:
			if len(b) > 0 {
				i := rapid.IntRange(0, len(b)-1).Draw(t, "i")
				b[i] = byte(rapid.IntRange(0, 255).Draw(t, "byte"))
			}
		default:
			if len(b) > 0 {
				b = b[:rapid.IntRange(0, len(b)).Draw(t, "cut")]
			}
		}
	}
	return string(b)
}

var c07CorpusGB = []string{"NC_000913.3.min.gb", "NC_001422.gb", "NC_001422_part.gb", "pBAT5.txt", "2x:NC_001422_part.gb", "2x:pBAT5.txt"}
var c07CorpusFA = []string{"NC_001422.fasta", "NC_001422_part.fasta", "2x:NC_001422_part.fasta"}

func c07Gen(t *rapid.T) c07Case {
	switch rapid.IntRange(0, 11).Draw(t, "target") {
	case 0, 1, 2, 3, 4:
		// mutated GenBank text (generated record, corpus record, or a stream)
		var text string
		if rapid.IntRange(0, 3).Draw(t, "src") == 0 {
			name := rapid.SampledFrom([]string{"NC_001422_part.gb", "pBAT5.txt", "NC_000913.3.min.gb"}).Draw(t, "corpus")
			text = string(corpusFile(name))
		} else {
			n := rapid.IntRange(1, 3).Draw(t, "nrec")
			var seqs []gts.Sequence
			for i := 0; i < n; i++ {
				seqs = append(seqs, c01GenRec(t, false).build())
			}
			s, v := writeGenBank(seqs)
			if v != nil {
				t.Skip("writer refused the generated record")
			}
			text = s
		}
		mut, how := c07MutateText(t, text)
		if rapid.IntRange(0, 4).Draw(t, "second") == 0 {
			var h2 string
			mut, h2 = c07MutateText(t, mut)
			how += "+" + h2
		}
		c := c07Case{Target: "scan", Input: []byte(mut), CRLF: rapid.IntRange(0, 3).Draw(t, "crlf") == 0, How: how, Trunc: -1}
		if len(mut) < 12000 && rapid.IntRange(0, 3).Draw(t, "shortreads") == 0 {
			c.Deliv = rapid.IntRange(1, len(deliveryNames)-1).Draw(t, "deliv")
		}
		return c
	case 5:
		// mutated FASTA
		text := ">a desc\nACGTACGT\nAC\n>b\n\n>c\nNNNN\n"
		mut, how := c07MutateText(t, text)
		c := c07Case{Target: "scan", Input: []byte(mut), CRLF: rapid.Bool().Draw(t, "crlf"), How: "fasta-" + how, Trunc: -1}
		if len(mut) < 12000 && rapid.IntRange(0, 3).Draw(t, "shortreads") == 0 {
			c.Deliv = rapid.IntRange(1, len(deliveryNames)-1).Draw(t, "deliv")
		}
		return c
	case 6:
		// feature table text
		feats := genGBFeats(t, rapid.IntRange(1, 4).Draw(t, "nf"), 30, false)
		text := seqio.INSDCFormatter{Table: featsToGts(feats), Prefix: "", Depth: 16}.String() + "\n"
		mut, how := c07MutateText(t, text)
		return c07Case{Target: "table", Input: []byte(mut), How: how, Trunc: -1}
	case 7:
		s := c06GenText(t, 3)
		return c07Case{Target: "location", Input: []byte(c07MutateString(t, s, "0123456789.^<>,() jcor-+")), How: "mutated", Trunc: -1}
	case 8:
		base := rapid.SampledFrom([]string{"^", "$", "^-3..$+3", "^..^+5", "$-5..$", "3", "3..9", "complement(3..9)", "gene", "gene/gene=a", "/note", "@^", "gene@^-2..$", "3..9@$", "CDS/product=p@^..^+3"}).Draw(t, "locator")
		return c07Case{Target: "locator", Input: []byte(c07MutateString(t, base, "^$.@+-0123456789/=()[*gene")), How: "mutated", Trunc: -1}
	case 9:
		base := rapid.SampledFrom([]string{"^", "$", "^+3", "$-2", "^-3..$+3", "^..^+5", "$-5..$", "^1..$2"}).Draw(t, "modifier")
		return c07Case{Target: "modifier", Input: []byte(c07MutateString(t, base, "^$.+-0123456789 ")), How: "mutated", Trunc: -1}
	case 10:
		base := c19GenSelector(t, true)
		return c07Case{Target: "selector", Input: []byte(c07MutateString(t, base, "/=\\()[]*+?.|^$a")), How: "mutated", Trunc: -1}
	default:
		kind := rapid.SampledFrom([]string{"date", "molecule", "topology"}).Draw(t, "scalar")
		base := map[string][]string{"date": {"01-JAN-2020", "29-FEB-2000", "31-Dec-1999", "1-01-2001"}, "molecule": {"DNA", "RNA", "AA", "ss-DNA", "ds-DNA"}, "topology": {"linear", "circular", "Linear"}}[kind]
		s := rapid.SampledFrom(base).Draw(t, "base")
		return c07Case{Target: kind, Input: []byte(c07MutateString(t, s, "-0123456789ABCDEFJanuryl ")), How: "mutated", Trunc: -1}
	}
}

var locusAnyRe = regexp.MustCompile(`(?m)^LOCUS[ \t]+\S+[ \t]+([0-9]{8,19}) (?:bp|aa)`)

// c07HugeDeclared returns the largest LOCUS length declared in the input when it is out of all proportion to the input
// (more than 64 Mi and more than 64 times the input's size), else 0.
func c07HugeDeclared(in []byte) int {
	worst := 0
	for _, m := range locusAnyRe.FindAllSubmatch(in, 8) {
		n, err := strconv.Atoi(string(m[1]))
		if err != nil || n <= 1<<26 || n/64 <= len(in) {
			continue
		}
		if n > worst {
			worst = n
		}
	}
	return worst
}

const c07ChildLimit = 3 << 30

// TestC07Child is the helper process of c07ScanInChild: it limits its own address space and scans the input.
func TestC07Child(t *testing.T) {
	path := os.Getenv("VERIF_C07_CHILD_INPUT")
	if path == "" {
		t.Skip("helper process only")
	}
	in, err := os.ReadFile(path)
	if err != nil {
		fmt.Println("C07CHILD unreadable")
		return
	}
	deliv, _ := strconv.Atoi(os.Getenv("VERIF_C07_CHILD_DELIV"))
	if err := syscall.Setrlimit(syscall.RLIMIT_AS, &syscall.Rlimit{Cur: c07ChildLimit, Max: c07ChildLimit}); err != nil {
		fmt.Println("C07CHILD setrlimit-failed")
		return
	}
	fmt.Println("C07CHILD started")
	pi := guard(func() {
		s := scanAll(in, deliv)
		for _, r := range s.recs {
			_ = gts.Len(r)
			_ = r.Bytes()
		}
	})
	if pi != nil {
		fmt.Printf("C07CHILD panic %s (at %s)\n", strings.ReplaceAll(pi.Value, "\n", " "), pi.Site)
		return
	}
	fmt.Println("C07CHILD done")
}

// c07ScanInChild scans the input in a child process whose address space is limited to 3 GiB. The child must come back
// (with values, an error or a recovered panic): if it dies, the reader needed memory that has nothing to do with the
// size of its input.
func c07ScanInChild(what string, in []byte, deliv, declared int) *Violation {
	dir := filepath.Join(outDir(), "c07-child")
	os.MkdirAll(dir, 0o755)
	f, err := os.CreateTemp(dir, "in")
	if err != nil {
		panic(err)
	}
	f.Write(in)
	f.Close()
	defer os.Remove(f.Name())
	ctx, cancel := context.WithTimeout(context.Background(), 120*time.Second)
	defer cancel()
	cmd := exec.CommandContext(ctx, os.Args[0], "-test.run", "^TestC07Child$")
	cmd.Env = append(os.Environ(), "VERIF_C07_CHILD_INPUT="+f.Name(), fmt.Sprint("VERIF_C07_CHILD_DELIV=", deliv))
	out, _ := cmd.CombinedOutput()
	started, status := false, ""
	for _, ln := range strings.Split(string(out), "\n") {
		if strings.HasPrefix(ln, "C07CHILD ") {
			st := strings.TrimPrefix(ln, "C07CHILD ")
			if st == "started" {
				started = true
			} else {
				status = st
			}
		}
	}
	switch {
	case ctx.Err() != nil:
		return viol("hang", "%s: reading %d bytes that declare %d bases did not finish within 120 s (child process)", what, len(in), declared)
	case !started:
		skipCase("declared-length-child-unavailable")
		return nil
	case status == "done":
		return nil
	case strings.HasPrefix(status, "panic "):
		return viol("panic", "%s: reading %d bytes that declare %d bases panicked: %s", what, len(in), declared, clipStr(status, 300))
	}
	tail := string(out)
	if i := strings.Index(tail, "fatal error"); i >= 0 {
		tail = tail[i:]
	}
	return viol("resource", "%s: the reader died on %d bytes that declare %d bases under an address-space limit of 3 GiB (memory is sized by the declared length, not by the input): %s", what, len(in), declared, clipStr(tail, 200))
}

func TestC07(t *testing.T) {
	st := newStats("C07")
	defer st.flush()
	// exhaustive truncation of every corpus file (quick: every offset of the small files, a dense sample of the large one)
	e := enumPart(t, c07Prop, st, "truncate-every-offset")
	exhaustive := true
	for _, name := range append(append([]string{}, c07CorpusGB...), c07CorpusFA...) {
		size := len(corpusFile(name))
		for _, cr := range []bool{false, true} {
			n := size
			if cr {
				n = len(crlf(string(corpusFile(name))))
				if !thorough() && size > 10000 {
					continue
				}
			}
			step := 1
			if !thorough() && size > 7000 {
				step = 4
				exhaustive = false
			}
			for k := 0; k <= n; k += step {
				if !e.try(c07Case{Target: "scan", Corpus: name, Trunc: k, CRLF: cr, How: "truncate"}) {
					return
				}
			}
			if !e.try(c07Case{Target: "scan", Corpus: name, Trunc: n, CRLF: cr, How: "valid"}) {
				return
			}
		}
	}
	e.done(exhaustive)
	// the same truncations through readers that hand the bytes over in other portions (short reads, one byte at a
	// time, last bytes together with io.EOF)
	ed := enumPart(t, c07Prop, st, "truncate-deliveries")
	for _, name := range append(append([]string{}, c07CorpusGB...), c07CorpusFA...) {
		size := len(corpusFile(name))
		if size > 10000 {
			continue
		}
		for how := 1; how < len(deliveryNames); how++ {
			for k := how; k <= size; k += pick(41, 7) {
				if !ed.try(c07Case{Target: "scan", Corpus: name, Trunc: k, CRLF: (k+how)%2 == 0, How: "truncate", Deliv: how}) {
					return
				}
			}
			if !ed.try(c07Case{Target: "scan", Corpus: name, Trunc: size, How: "valid", Deliv: how}) {
				return
			}
		}
	}
	ed.done(false)
	// every truncation of the GenBank corpus files once more with a complete FASTA record behind the cut
	ef := enumPart(t, c07Prop, st, "truncate-then-fasta")
	for _, name := range c07CorpusGB {
		size := len(corpusFile(name))
		if strings.HasPrefix(name, "2x:") {
			continue
		}
		step := 1
		if !thorough() && size > 7000 {
			step = 3
		}
		for k := 0; k <= size; k += step {
			if !ef.try(c07Case{Target: "scan", Corpus: name, Trunc: k, CRLF: !thorough() && k%5 == 0, How: "truncate", Then: "fasta"}) {
				return
			}
			if thorough() && !ef.try(c07Case{Target: "scan", Corpus: name, Trunc: k, CRLF: true, How: "truncate", Then: "fasta"}) {
				return
			}
		}
	}
	ef.done(thorough())
	// three-way mutations: every pair, and every triple that involves a change of line order, of ~130 single edits of
	// a small synthetic record (delete / duplicate a line, one blank less or more at its start or in its widest gap,
	// swap neighbours, move the REFERENCE block in front of SOURCE and the like). Defects that need three things at
	// once (a field out of order + an uneven indent + a missing subfield) are out of reach of one random mutation.
	etw := enumPart(t, c07Prop, st, "three-way-mutations")
	{
		base := strings.SplitAfter("LOCUS       TINY                      20 bp    DNA     linear   SYN 01-JAN-2020\nDEFINITION  tiny record.\nACCESSION   TINY\nVERSION     TINY.1\nKEYWORDS    .\n"+
			"SOURCE      synthetic construct\n  ORGANISM  synthetic construct\n            other sequences.\nREFERENCE   1  (bases 1 to 20)\n  AUTHORS   Doe,J.\n  TITLE     direct submission\n  JOURNAL   Unpublished\n"+
			"COMMENT     a comment.\nFEATURES             Location/Qualifiers\n     gene            1..20\n                     /gene=\"g\"\nORIGIN      \n        1 acgtacgtac gtacgtacgt\n//\n", "\n")
		base = base[:len(base)-1]
		type edit struct {
			kind string
			i, j int
		}
		var singles []edit
		for i := range base {
			for _, k := range []string{"del", "dup", "dedent-start", "dedent-gap", "indent-start", "indent-gap"} {
				singles = append(singles, edit{k, i, 0})
			}
			if i+1 < len(base) {
				singles = append(singles, edit{"swap", i, i + 1})
			}
		}
		nOrder := 0
		for _, mv := range [][2]int{{8, 5}, {5, 12}, {12, 1}, {13, 8}} { // move the block starting at line i in front of line j
			singles = append(singles, edit{"move", mv[0], mv[1]})
		}
		isOrder := func(e edit) bool { return e.kind == "swap" || e.kind == "move" }
		for _, e := range singles {
			if isOrder(e) {
				nOrder++
			}
		}
		blockEnd := func(lines []string, i int) int { // a field with its indented continuation / subfield lines
			k := i + 1
			for k < len(lines) && strings.HasPrefix(lines[k], " ") {
				k++
			}
			return k
		}
		gap := func(ln string) (int, int) { // the widest run of blanks inside the line
			bs, bl, cs := -1, 0, -1
			for k := 0; k <= len(ln); k++ {
				if k < len(ln) && ln[k] == ' ' {
					if cs < 0 {
						cs = k
					}
					continue
				}
				if cs >= 0 && k-cs > bl {
					bs, bl = cs, k-cs
				}
				cs = -1
			}
			return bs, bl
		}
		apply := func(edits []edit) string {
			type ln struct {
				id   int
				text string
			}
			lines := make([]ln, len(base))
			for i, t := range base {
				lines[i] = ln{i, t}
			}
			find := func(id int) int {
				for k, l := range lines {
					if l.id == id {
						return k
					}
				}
				return -1
			}
			for _, e := range edits { // order changes first, by line identity
				switch e.kind {
				case "swap":
					a, b := find(e.i), find(e.j)
					if a >= 0 && b >= 0 {
						lines[a], lines[b] = lines[b], lines[a]
					}
				case "move":
					a, b := find(e.i), find(e.j)
					if a < 0 || b < 0 {
						continue
					}
					texts := make([]string, len(lines))
					for k, l := range lines {
						texts[k] = l.text
					}
					end := blockEnd(texts, a)
					if b >= a && b < end {
						continue
					}
					blk := append([]ln{}, lines[a:end]...)
					rest := append(append([]ln{}, lines[:a]...), lines[end:]...)
					at := 0
					for k, l := range rest {
						if l.id == e.j {
							at = k
						}
					}
					lines = append(append(append([]ln{}, rest[:at]...), blk...), rest[at:]...)
				}
			}
			for _, e := range edits {
				k := find(e.i)
				if k < 0 {
					continue
				}
				t := lines[k].text
				switch e.kind {
				case "dedent-start":
					if strings.HasPrefix(t, " ") {
						lines[k].text = t[1:]
					}
				case "indent-start":
					lines[k].text = " " + t
				case "dedent-gap":
					if s0, n := gap(strings.TrimRight(t, "\n")); n >= 2 && s0 > 0 {
						lines[k].text = t[:s0] + t[s0+1:]
					}
				case "indent-gap":
					if s0, n := gap(strings.TrimRight(t, "\n")); n >= 1 && s0 > 0 {
						lines[k].text = t[:s0] + " " + t[s0:]
					}
				}
			}
			var out strings.Builder
			for _, l := range lines {
				del, dup := false, false
				for _, e := range edits {
					if e.i == l.id && e.kind == "del" {
						del = true
					}
					if e.i == l.id && e.kind == "dup" {
						dup = true
					}
				}
				if del {
					continue
				}
				out.WriteString(l.text)
				if dup {
					out.WriteString(l.text)
				}
			}
			return out.String()
		}
		seen := map[string]bool{}
		try := func(edits ...edit) bool {
			text := apply(edits)
			if seen[text] {
				return true
			}
			seen[text] = true
			return etw.try(c07Case{Target: "scan", Input: []byte(text), How: "three-way", Trunc: -1})
		}
		for a := 0; a < len(singles); a++ {
			if !try(singles[a]) {
				return
			}
			for b := a + 1; b < len(singles); b++ {
				if !try(singles[a], singles[b]) {
					return
				}
				for c3 := b + 1; c3 < len(singles); c3++ {
					if !(isOrder(singles[a]) || isOrder(singles[b]) || isOrder(singles[c3])) {
						continue
					}
					if !thorough() && (c3+b)%3 != 0 && !(singles[c3].kind == "del" || singles[b].kind == "del" || singles[a].kind == "del") {
						continue
					}
					if !try(singles[a], singles[b], singles[c3]) {
						return
					}
				}
			}
		}
		st.note("three-way-mutations: %d single edits (%d of them change the line order), %d distinct texts", len(singles), nOrder, len(seen))
	}
	etw.done(false)
	// hostile lines: every line of the list put in front of every line of the small GenBank files (what the rapid
	// mutator does at one random place), LF and CRLF
	ehl := enumPart(t, c07Prop, st, "hostile-lines")
	for _, name := range []string{"NC_001422_part.gb", "pBAT5.txt", "NC_000913.3.min.gb"} {
		lines := strings.SplitAfter(string(corpusFile(name)), "\n")
		for i := range lines {
			if !thorough() && i%2 == 1 && i > 40 {
				continue
			}
			for k, h := range c07Hostile {
				text := strings.Join(lines[:i], "") + h + "\n" + strings.Join(lines[i:], "")
				if !ehl.try(c07Case{Target: "scan", Input: []byte(text), CRLF: (i+k)%4 == 0, How: "hostile-line", Trunc: -1}) {
					return
				}
			}
		}
	}
	ehl.done(thorough())
	// declared lengths out of all proportion to the input (each is read in a child process first, see c07ScanInChild)
	eh := enumPart(t, c07Prop, st, "huge-declared-lengths")
	for _, n := range []int{1<<26 + 1, 1 << 28, 1 << 30, 3 << 30, 10000000000, 1 << 36, 1 << 40, 230000000000000, 1000000000000000, 4000000000000000000, 9223372036854775806} {
		for _, body := range []string{"", "ORIGIN      \n        1 acgtacgtac gtacgtacgt\n//\n", "ORIGIN      \n//\n"} {
			for _, cr := range []bool{false, true} {
				rec := fmt.Sprintf("LOCUS       HUGE        %19d bp    DNA     linear   SYN 01-JAN-2020\nDEFINITION  d.\nACCESSION   A\nVERSION     A.1\nKEYWORDS    .\nSOURCE      s\n  ORGANISM  o\n            Bacteria.\nFEATURES             Location/Qualifiers\n     misc_feature    1\n%s", n, body)
				if !eh.try(c07Case{Target: "scan", Input: []byte(rec), CRLF: cr, How: "declared-length", Trunc: -1}) {
					return
				}
			}
		}
	}
	eh.done(false)
	// size ladder: cost stays under the ceiling for valid and for garbage input up to 1 MiB
	e2 := enumPart(t, c07Prop, st, "size-ladder")
	base := corpusFile("NC_001422.gb")
	for _, target := range []int{16 << 10, 128 << 10, 1 << 20} {
		var valid []byte
		for len(valid) < target {
			valid = append(valid, base...)
		}
		garbage := make([]byte, target)
		x := uint64(target)
		for i := range garbage {
			x = splitmix(x)
			garbage[i] = byte(x)
		}
		longLine := append([]byte("LOCUS       "), bytes.Repeat([]byte("A"), target)...)
		nested := []byte(strings.Repeat("join(", target/64) + "1" + strings.Repeat(")", target/64))
		for _, c := range []c07Case{
			{Target: "scan", Input: valid, How: "ladder-valid", Trunc: -1}, {Target: "scan", Input: garbage, How: "ladder-garbage", Trunc: -1},
			{Target: "scan", Input: longLine, How: "ladder-long-line", Trunc: -1}, {Target: "location", Input: nested, How: "ladder-nested", Trunc: -1},
			{Target: "selector", Input: garbage[:target/16], How: "ladder-garbage", Trunc: -1}, {Target: "table", Input: garbage, How: "ladder-garbage", Trunc: -1},
		} {
			if !e2.try(c) {
				return
			}
		}
	}
	e2.done(true)
	// growth rate: every input shape at n, 4n and 16n (c07scale_test.go); run before the bulk so that the machine
	// is not saturated by this process's own work
	e3 := enumPart(t, c07Prop, st, "growth-rate")
	for _, name := range c07ShapeNames {
		if !e3.try(c07Case{Target: "scale", Shape: name, Trunc: -1}) {
			return
		}
	}
	e3.done(true)
	for _, n := range scaleNotes {
		st.note("growth-rate %s", n)
	}
	rapidPart(t, c07Prop, st, "rapid", pick(12000, 100000), c07Gen)
	if t.Failed() {
		return
	}
	// location grammar: text assembled from the INSDC location grammar with odd numbers (inverted ranges, leading
	// zeros, huge values, legacy spellings), plain or with one character-level mutation, handed to AsLocation, to
	// AsLocator, or placed on the key line of a feature inside a GenBank record / a bare feature table
	rapidPart(t, c07Prop, st, "rapid-locations", pick(25000, 150000), func(t *rapid.T) c07Case {
		s := c06GenText(t, 3)
		how := "grammar"
		if rapid.IntRange(0, 2).Draw(t, "mut") == 0 {
			s = c07MutateString(t, s, "0123456789.^<>,() jcor-+")
			how = "mutated"
		}
		switch rapid.IntRange(0, 9).Draw(t, "where") {
		case 0:
			return c07Case{Target: "scan", Input: []byte(gbLocus + gbFeatHdr + "     gene            " + s + "\n" + qIndent + "/gene=\"g\"\n" + gbTail), How: how + " feature-location", Trunc: -1}
		case 1:
			return c07Case{Target: "table", Input: []byte("gene            " + s + "\n                /gene=\"g\"\n"), How: how + " feature-location", Trunc: -1}
		case 2:
			return c07Case{Target: "locator", Input: []byte(s + rapid.SampledFrom([]string{"", "@^", "@^-1..$+1"}).Draw(t, "at")), How: how, Trunc: -1}
		}
		return c07Case{Target: "location", Input: []byte(s), How: how, Trunc: -1}
	})
}

// ---- native fuzz targets (thorough) --------------------------------------------------------------

func c07FuzzBody(target string) func(t *testing.T, in []byte) {
	return func(t *testing.T, in []byte) {
		if len(in) > 1<<16 {
			return
		}
		c := c07Case{Target: target, Input: append([]byte(nil), in...), How: "fuzz", Trunc: -1}
		if v := c07Check(c); v != nil {
			writeFail("C07", "fuzz-"+target, mustJSON(c), v)
			t.Fatalf("VIOLATION C07/fuzz-%s [%s]: %s", target, v.Kind, v.Msg)
		}
	}
}

func FuzzC07Scan(f *testing.F) {
	for _, name := range []string{"NC_001422_part.gb", "pBAT5.txt", "NC_001422_part.fasta"} {
		f.Add(corpusFile(name))
	}
	for _, h := range c07Hostile {
		f.Add([]byte("LOCUS       X 10 bp DNA linear SYN 01-JAN-2020\n" + h + "\n//\n"))
	}
	f.Fuzz(c07FuzzBody("scan"))
}

func FuzzC07Table(f *testing.F) {
	f.Add([]byte("gene            1..5\n                /gene=\"a\"\n                /pseudo\nCDS             complement(join(1..2,4..5))\n                /codon_start=1\n"))
	f.Add([]byte("     source          1..10\n                     /note=\""))
	f.Fuzz(c07FuzzBody("table"))
}

func FuzzC07Locator(f *testing.F) {
	for _, s := range []string{"^", "$", "^-3..$+3", "3..9", "complement(3..9)", "gene/gene=a@^..^+3", "@$", "/=(", "gene@", "@@"} {
		f.Add([]byte(s))
	}
	f.Fuzz(c07FuzzBody("locator"))
}

func FuzzC07Modifier(f *testing.F) {
	for _, s := range []string{"^", "$", "^+3", "$-2", "^-3..$+3", "^..^+5", "$-5..$", "^..", "..$"} {
		f.Add([]byte(s))
	}
	f.Fuzz(c07FuzzBody("modifier"))
}

func FuzzC07Selector(f *testing.F) {
	for _, s := range []string{"gene", "gene/gene=a", "/note", "/=a", "a\\/b/=x", "/a=(", "/=[", "//", "="} {
		f.Add([]byte(s))
	}
	f.Fuzz(c07FuzzBody("selector"))
}

func FuzzC07Location(f *testing.F) {
	for _, s := range []string{"1", "1^2", "1..5", "<1..>5", "join(1..2,4..5)", "complement(join(1,3))", "order(1,2)", "join(", "complement(", "1.5", "0^1", "9223372036854775807..1"} {
		f.Add([]byte(s))
	}
	f.Fuzz(c07FuzzBody("location"))
}

func FuzzC07Date(f *testing.F) {
	for _, s := range []string{"01-JAN-2020", "29-FEB-2001", "0-JAN-1", "--", "1-1-1"} {
		f.Add([]byte(s))
	}
	f.Fuzz(c07FuzzBody("date"))
}
