package harness

// C04 — Rotate is a pure change of origin on circular sequences.

import (
	"bytes"
	"fmt"
	"testing"

	"github.com/go-gts/gts"
	"pgregory.net/rapid"
)

type c04Case struct {
	L     int    `json:"len"`
	N     int    `json:"n"`
	B     int    `json:"b"` // second amount for the additive law
	Feats []Feat `json:"feats"`
	GB    bool   `json:"genbank,omitempty"` // the sequence is a seqio.GenBank record instead of a gts.New value
}

func mod(x, L int) int { return ((x % L) + L) % L }

// sitesModL lists the gaps of a pure-site denotation modulo L (gap L == gap 0 on a circle), collapsed.
func sitesModL(d []Elem, L int) []Elem {
	out := []Elem{}
	for _, e := range d {
		if e.Site {
			e.Pos = mod(e.Pos, L)
			if n := len(out); n > 0 && out[n-1] == e {
				continue
			}
			out = append(out, e)
		}
	}
	return out
}

// compareRotated checks one rotated feature against the model.
func compareRotated(what string, got gts.Feature, want Feat, L, n int) *Violation {
	exp := rotateLoc(want.Loc, L, n)
	expDen, expM := den(exp), markers(exp)
	if v := compareFeatureCirc(what, got, want, expDen, expM, L, true); v != nil {
		return v
	}
	// the location as it is written (what the GenBank writer and every command emit) reads back as what it is
	{
		text := got.Loc.String()
		var re gts.Location
		var err error
		if pi := guard(func() { re, err = gts.AsLocation(text) }); pi != nil {
			return panicViolation("AsLocation("+text+")", pi)
		}
		if err != nil {
			return viol("written-form", "%s: the rotated location is written %q, which does not parse: %v", what, text, err)
		}
		a, ok1 := fromGts(got.Loc)
		b, ok2 := fromGts(re)
		if ok1 && ok2 && a.wellFormed() && b.wellFormed() && !sameElems(collapse(den(a)), collapse(den(b))) {
			return viol("written-form", "%s: the rotated location %s is written %q, which reads back as %s (%s vs %s)", what, a, text, b, elemsString(collapse(den(a))), elemsString(collapse(den(b))))
		}
	}
	// "a full-length feature stays full-length": a single range over the whole sequence (either strand, whatever its
	// partial markers) is not opened at the new origin - it comes back as the same range
	if w, depth := want.Loc, 0; true {
		for w.K == "co" && len(w.Parts) == 1 {
			w, depth = w.Parts[0], depth+1
		}
		if w.K == "rg" && w.A == 0 && w.B == L && L > 0 {
			g, ok := fromGts(got.Loc)
			gd := 0
			for ok && g.K == "co" && len(g.Parts) == 1 {
				g, gd = g.Parts[0], gd+1
			}
			if !ok || g.K != "rg" || g.A != 0 || g.B != L || gd%2 != depth%2 || g.P5 != w.P5 || g.P3 != w.P3 {
				return viol("full-length", "%s: the full-length feature %s came back as %s", what, want.Loc, got.Loc)
			}
		}
	}
	if !hasResidue(expDen) {
		ast, _ := fromGts(got.Loc)
		es, as := sitesModL(expDen, L), sitesModL(den(ast), L)
		if !sameElems(es, as) {
			return viol("site", "%s: expected sites %s (mod %d), got %s (location %s)", what, elemsString(es), L, elemsString(as), ast)
		}
	}
	return nil
}

// sameFeatureMeaning compares two result tables feature by feature (by label): residues, outer markers and,
// for site-only features, sites modulo L.
func sameFeatureMeaning(what string, a, b gts.FeatureSlice, L int, circular bool) *Violation {
	if len(a) != len(b) {
		return viol("count", "%s: %d vs %d features", what, len(a), len(b))
	}
	bb, aa := byLabel(b), byLabel(a)
	for _, f := range a {
		gg := bb[labelOf(f)]
		if len(gg) != len(aa[labelOf(f)]) {
			return viol("presence", "%s: feature %s present %d times", what, labelOf(f), len(gg))
		}
		x, ok1 := fromGts(f.Loc)
		y, ok2 := fromGts(gg[0].Loc)
		if !ok1 || !ok2 || !x.wellFormed() || !y.wellFormed() {
			return viol("malformed", "%s: feature %s has a malformed location (%#v / %#v)", what, labelOf(f), f.Loc, gg[0].Loc)
		}
		dx, dy := den(x), den(y)
		if hasResidue(dx) || hasResidue(dy) {
			rx, ry := residues(dx), residues(dy)
			full := false
			if circular {
				var f1, f2 bool
				rx, f1 = canonFull(rx, L)
				ry, f2 = canonFull(ry, L)
				full = f1 || f2
				if full {
					rx, ry = elemSet(rx), elemSet(ry)
				}
			}
			if !sameElems(rx, ry) {
				return viol("denotation", "%s: feature %s denotes %s (%s) vs %s (%s)", what, labelOf(f), elemsString(residues(dx)), x, elemsString(residues(dy)), y)
			}
			circL := 0
			if circular {
				circL = L
			}
			mx, my := outerMarkersCirc(dx, markers(x), circL), outerMarkersCirc(dy, markers(y), circL)
			if !full && !sameMarkers(mx, my) {
				return viol("markers", "%s: feature %s markers %s (%s) vs %s (%s)", what, labelOf(f), markersString(mx), x, markersString(my), y)
			}
			continue
		}
		var sx, sy []Elem
		if circular {
			sx, sy = sitesModL(dx, L), sitesModL(dy, L)
		} else {
			sx, sy = collapse(dx), collapse(dy)
		}
		if !sameElems(sx, sy) {
			return viol("site", "%s: site-only feature %s at %s (%s) vs %s (%s)", what, labelOf(f), elemsString(sx), x, elemsString(sy), y)
		}
	}
	return nil
}

func c04Check(c c04Case) *Violation {
	L := c.L
	orig := idBytes(0, L)
	mk := func() gts.Sequence {
		if c.GB {
			return c02Carry(1, "REC", c.Feats, orig)
		}
		return gts.New(nil, featsToGts(c.Feats), append([]byte(nil), orig...))
	}
	rot := func(s gts.Sequence, n int) (out gts.Sequence, v *Violation) {
		if pi := guard(func() { out = gts.Rotate(s, n) }); pi != nil {
			return nil, panicViolation(fmt.Sprintf("Rotate(%d)", n), pi)
		}
		return out, nil
	}
	out, v := rot(mk(), c.N)
	if v != nil {
		return v
	}
	got := out.Bytes()
	if len(got) != L {
		return viol("bytes", "Rotate(%d) changed the length from %d to %d", c.N, L, len(got))
	}
	for k := 0; k < L; k++ {
		if got[mod(k+c.N, L)] != orig[k] {
			return viol("bytes", "Rotate(%d) of %q gave %q: residue %d is not at %d", c.N, orig, got, k, mod(k+c.N, L))
		}
	}
	if len(out.Features()) != len(c.Feats) {
		return viol("count", "Rotate: %d features became %d", len(c.Feats), len(out.Features()))
	}
	byl := byLabel(out.Features())
	for _, f := range c.Feats {
		gg := byl[f.label()]
		if len(gg) != multOf(c.Feats, f) {
			return viol("presence", "Rotate: feature %s present %d times", f.label(), len(gg))
		}
		if v := compareRotated(fmt.Sprintf("Rotate L=%d n=%d feature %s %s", L, c.N, f.label(), f.Loc), gg[0], f, L, c.N); v != nil {
			return v
		}
	}
	// laws (metamorphic, gts against gts): additive, identity for multiples of L, inverse
	ab, v := rot(out, c.B)
	if v != nil {
		return v
	}
	sum, v := rot(mk(), c.N+c.B)
	if v != nil {
		return v
	}
	if !bytes.Equal(ab.Bytes(), sum.Bytes()) {
		return viol("law-bytes", "Rotate(%d) then Rotate(%d) gives %q, Rotate(%d) gives %q", c.N, c.B, ab.Bytes(), c.N+c.B, sum.Bytes())
	}
	if v := sameFeatureMeaning(fmt.Sprintf("additive law L=%d a=%d b=%d", L, c.N, c.B), ab.Features(), sum.Features(), L, true); v != nil {
		v.Kind = "law-" + v.Kind
		return v
	}
	back, v := rot(out, -c.N)
	if v != nil {
		return v
	}
	if !bytes.Equal(back.Bytes(), orig) {
		return viol("law-bytes", "Rotate(%d) then Rotate(%d) gives %q, want %q", c.N, -c.N, back.Bytes(), orig)
	}
	k := 0
	if L > 0 {
		k = c.B / L // some multiple of L in range
	}
	idn, v := rot(mk(), k*L)
	if v != nil {
		return v
	}
	if !bytes.Equal(idn.Bytes(), orig) {
		return viol("law-bytes", "Rotate(%d) (a multiple of L=%d) gives %q, want %q", k*L, L, idn.Bytes(), orig)
	}
	// compare "back" and "idn" with the model's identity rotation (n=0), which tolerates exactly the
	// representation changes the statement allows
	for _, pair := range []struct {
		name string
		seq  gts.Sequence
	}{{fmt.Sprintf("inverse law L=%d n=%d", L, c.N), back}, {fmt.Sprintf("identity law L=%d n=%d", L, k*L), idn}} {
		bl := byLabel(pair.seq.Features())
		for _, f := range c.Feats {
			gg := bl[f.label()]
			if len(gg) != multOf(c.Feats, f) {
				return viol("law-presence", "%s: feature %s present %d times", pair.name, f.label(), len(gg))
			}
			if v := compareRotated(fmt.Sprintf("%s feature %s %s", pair.name, f.label(), f.Loc), gg[0], f, L, 0); v != nil {
				v.Kind = "law-" + v.Kind
				return v
			}
		}
	}
	return nil
}

// newOrigin is the old gap that becomes gap 0 after rotating by n.
func newOrigin(L, n int) int { return mod(L-mod(n, L), L) }

func c04Classify(c c04Case) (bool, []string) {
	o := newOrigin(c.L, c.N)
	cross, siteAtOrigin, full := false, false, false
	labels := []string{}
	for _, f := range c.Feats {
		for _, x := range f.Loc.leaves() {
			switch x.K {
			case "rg", "am":
				if x.A < o && o < x.B {
					cross = true
				}
				if x.B-x.A == c.L {
					full = true
				}
			case "bt":
				if mod(x.A, c.L) == o {
					siteAtOrigin = true
				}
			}
		}
		labels = append(labels, "kind:"+f.Loc.K)
	}
	big := c.N >= c.L || -c.N >= c.L
	for k, v := range map[string]bool{"crosses-origin": cross, "site-at-origin": siteAtOrigin, "full-length": full, "|n|>=L": big, "n<0": c.N < 0} {
		if v {
			labels = append(labels, k)
		}
	}
	return cross || big || siteAtOrigin, labels
}

// c04KF: known-finding predicates (inputs only).
func c04KF(c c04Case, v *Violation) []string {
	var sigs []string
	if v.Kind == "site" || v.Kind == "law-site" {
		for _, f := range c.Feats {
			if !hasResidue(den(f.Loc)) {
				sigs = append(sigs, "site-at-gap0-never-moves")
				break
			}
		}
	}
	if v.Kind == "denotation" || v.Kind == "law-denotation" {
		for _, f := range c.Feats {
			r1, t1 := reduceSim(rotateLoc(f.Loc, c.L, c.N))
			_, t2 := reduceSim(rotateLoc(r1, c.L, c.B))
			_, t3 := reduceSim(rotateLoc(f.Loc, c.L, c.N+c.B))
			_, t4 := reduceSim(rotateLoc(r1, c.L, -c.N))
			_, t5 := reduceSim(rotateLoc(f.Loc, c.L, 0))
			if t1 || t2 || t3 || t4 || t5 {
				sigs = append(sigs, "join-range-then-point-drops-point")
			}
		}
	}
	return sigs
}

var c04Prop = &Prop[c04Case]{ID: "C04", Check: c04Check, Classify: c04Classify, KF: c04KF}

func init() { registerReplay(c04Prop) }

// uncrossAmbig replaces ambiguous leaves that would cross one of the given origins by plain ranges
// (the quantifier of C04 excludes them).
func uncrossAmbig(l Loc, origins []int) Loc {
	switch l.K {
	case "am":
		for _, o := range origins {
			if l.A < o && o < l.B {
				return lrg(l.A, l.B)
			}
		}
		return l
	case "jn", "or", "co":
		out := Loc{K: l.K}
		for _, p := range l.Parts {
			out.Parts = append(out.Parts, uncrossAmbig(p, origins))
		}
		return out
	}
	return l
}

func c04Gen(t *rapid.T) c04Case {
	L := drawLen(t, 1, 14, "L")
	n := rapid.IntRange(-3*L, 3*L).Draw(t, "n")
	b := rapid.IntRange(-3*L, 3*L).Draw(t, "b")
	c := c04Case{L: L, N: n, B: b, GB: rapid.IntRange(0, 3).Draw(t, "genbank") == 0}
	o := newOrigin(L, n)
	cfg := locCfg{L: L, Hot: hotAround(L, o, 0), MaxDepth: 3, MaxParts: scopeParts(4), Ambig: true, Sites: true}
	c.Feats = addTwins(t, genFeats(t, cfg, drawCount(t, 0, 4, 9, "nfeat"), "f", true), "f")
	origins := []int{o, newOrigin(L, n+b)}
	for i := range c.Feats {
		fixed := uncrossAmbig(c.Feats[i].Loc, origins)
		canon, _ := fromGts(toGts(fixed))
		c.Feats[i].Loc = canon
	}
	return c
}

func TestC04(t *testing.T) {
	st := newStats("C04")
	defer st.flush()
	rapidPart(t, c04Prop, st, "rapid", pick(30000, 250000), c04Gen)
	if t.Failed() {
		return
	}
	rapidLargePart(t, c04Prop, st, pick(1500, 20000), c04Gen)
	if t.Failed() {
		return
	}
	rapidTwinsPart(t, c04Prop, st, pick(3000, 30000), c04Gen)
	if t.Failed() {
		return
	}
	maxL := pick(4, 6)
	// magnitudes: sequences whose sizes sit on powers of two and multiples of 65536, one spanning feature
	eg := enumPart(t, c04Prop, st, "large-residues")
	for _, n := range magnitudeLensShort(thorough()) {
		span := []Feat{{Key: "gene", Loc: lrg(1, n-1), Quals: [][]string{{"label", "f0"}}}}
		for _, c := range []c04Case{{L: n, N: n / 2, B: 1, Feats: span}, {L: n, N: -65536, B: 65536, Feats: span}, {L: n, N: 1, B: n - 1, Feats: span}} {
			if !eg.try(c) {
				return
			}
		}
	}
	eg.done(true)
	e := enumPart(t, c04Prop, st, "exhaustive-small")
	for L := 1; L <= maxL; L++ {
		leaves := smallLocs(L, true, false)
		var locs []Loc
		for _, a := range leaves {
			locs = append(locs, a, lco(a))
		}
		for _, a := range leaves {
			for _, b := range leaves {
				locs = append(locs, ljn(a, b), lor(a, b), lco(ljn(a, b)))
			}
		}
		for _, raw := range locs {
			canon, _ := fromGts(toGts(raw))
			for n := -2 * L; n <= 2*L; n++ {
				c := c04Case{L: L, N: n, B: mod(n*7+3, 3*L+1) - L, Feats: []Feat{{Key: "gene", Loc: canon, Quals: [][]string{{"label", "f0"}}}}}
				if !e.try(c) {
					return
				}
			}
		}
	}
	e.done(true)
}
