package harness

// C08 — Resizing a region equals slicing its spliced sequence; locators compose.

import (
	"bytes"
	"fmt"
	"strings"
	"testing"

	"github.com/go-gts/gts"
	"pgregory.net/rapid"
)

type c08Mod struct {
	Kind string `json:"kind"` // head, tail, headtail, headhead, tailtail
	P    int    `json:"p"`
	Q    int    `json:"q,omitempty"`
}

func (m c08Mod) toGts() gts.Modifier {
	switch m.Kind {
	case "head":
		return gts.Head(m.P)
	case "tail":
		return gts.Tail(m.P)
	case "headtail":
		return gts.HeadTail{m.P, m.Q}
	case "headhead":
		return gts.HeadHead{m.P, m.Q}
	default:
		return gts.TailTail{m.P, m.Q}
	}
}

// bounds returns [lo,hi) relative to the region's 5' end for a region of length n (statement: ^ = 5' end,
// $ = 3' end; hi never below lo).
func (m c08Mod) bounds(n int) (lo, hi int) {
	switch m.Kind {
	case "head":
		lo, hi = m.P, m.P
	case "tail":
		lo, hi = n+m.P, n+m.P
	case "headtail":
		lo, hi = m.P, n+m.Q
	case "headhead":
		lo, hi = m.P, m.Q
	default:
		lo, hi = n+m.P, n+m.Q
	}
	if hi < lo {
		hi = lo
	}
	return
}

func (m c08Mod) text() string {
	off := func(c string, v int) string {
		if v == 0 {
			return c
		}
		return fmt.Sprintf("%s%+d", c, v)
	}
	switch m.Kind {
	case "head":
		return off("^", m.P)
	case "tail":
		return off("$", m.P)
	case "headtail":
		return off("^", m.P) + ".." + off("$", m.Q)
	case "headhead":
		return off("^", m.P) + ".." + off("^", m.Q)
	default:
		return off("$", m.P) + ".." + off("$", m.Q)
	}
}

type c08Case struct {
	Mode string   `json:"mode"` // resize, modtext, locator
	L    int      `json:"len"`
	Segs [][2]int `json:"segs,omitempty"` // forward segments [a,b) in region order
	Comp bool     `json:"comp,omitempty"` // region on the reverse strand (Region.Complement())
	Bare bool     `json:"bare,omitempty"` // single segment passed as Segment instead of Regions{Segment}
	Mod  c08Mod   `json:"mod"`
	// locator mode
	Spec  string `json:"spec,omitempty"`  // X ("" = none)
	UseAt bool   `json:"useat,omitempty"` // append "@" + modifier
	Table []Feat `json:"table,omitempty"`
}

func c08Seqs(L int) [][]byte {
	a := idBytes(0, L)
	b := make([]byte, L)
	for i := range b {
		b[i] = strandAlphabet[i%len(strandAlphabet)]
	}
	return [][]byte{a, b}
}

// regionDen: denotation of a region given as forward segments in order, optionally complemented as a whole.
func regionDen(segs [][2]int, comp bool) []Elem {
	var d []Elem
	for _, s := range segs {
		for p := s[0]; p < s[1]; p++ {
			d = append(d, Elem{Pos: p})
		}
	}
	if comp {
		out := make([]Elem, len(d))
		for i, e := range d {
			e.Rev = true
			out[len(d)-1-i] = e
		}
		return out
	}
	return d
}

// extended: the spliced denotation with u residues upstream of the first and dn downstream of the last
// segment, in strand direction.
func extended(segs [][2]int, comp bool, u, dn int) []Elem {
	if len(segs) == 0 {
		return nil
	}
	if comp {
		fwd := extended(segs, false, dn, u)
		out := make([]Elem, len(fwd))
		for i, e := range fwd {
			e.Rev = true
			out[len(fwd)-1-i] = e
		}
		return out
	}
	var d []Elem
	first, last := segs[0], segs[len(segs)-1]
	for p := first[0] - u; p < first[0]; p++ {
		d = append(d, Elem{Pos: p})
	}
	d = append(d, regionDen(segs, false)...)
	for p := last[1]; p < last[1]+dn; p++ {
		d = append(d, Elem{Pos: p})
	}
	return d
}

func buildRegion(segs [][2]int, comp, bare bool) gts.Region {
	var r gts.Region
	if len(segs) == 1 && bare {
		r = gts.Segment{segs[0][0], segs[0][1]}
	} else {
		rr := make(gts.Regions, len(segs))
		for i, s := range segs {
			rr[i] = gts.Segment{s[0], s[1]}
		}
		r = rr
	}
	if comp {
		r = r.Complement()
	}
	return r
}

// expectedSlice returns the elements of ext[lo,hi) or ok=false if the request leaves the sequence.
func expectedSlice(segs [][2]int, comp bool, lo, hi, L int) ([]Elem, bool) {
	n := 0
	for _, s := range segs {
		n += s[1] - s[0]
	}
	u, dn := maxInt(0, -lo), maxInt(0, hi-n)
	ext := extended(segs, comp, u, dn)
	for _, e := range ext {
		if e.Pos < 0 || e.Pos >= L {
			return nil, false
		}
	}
	return ext[lo+u : hi+u], true
}

func c08Check(c c08Case) *Violation {
	switch c.Mode {
	case "modtext":
		m := c.Mod.toGts()
		var s string
		var back gts.Modifier
		var err error
		if pi := guard(func() { s = m.String(); back, err = gts.AsModifier(s) }); pi != nil {
			return panicViolation("Modifier.String/AsModifier", pi)
		}
		if err != nil {
			return viol("modifier-text", "modifier %#v prints as %q which AsModifier rejects: %v", m, s, err)
		}
		if fmt.Sprintf("%#v", back) != fmt.Sprintf("%#v", m) {
			return viol("modifier-text", "modifier %#v prints as %q and re-parses as %#v", m, s, back)
		}
		if s != c.Mod.text() {
			return viol("modifier-text", "modifier %#v prints as %q, want %q", m, s, c.Mod.text())
		}
		return nil
	case "resize":
		n := 0
		for _, s := range c.Segs {
			n += s[1] - s[0]
		}
		lo, hi := c.Mod.bounds(n)
		want, ok := expectedSlice(c.Segs, c.Comp, lo, hi, c.L)
		if !ok {
			skipCase("resize-leaves-sequence")
			return nil // generator keeps requests inside the sequence; replayed foreign cases are skipped
		}
		region := buildRegion(c.Segs, c.Comp, c.Bare)
		var resized gts.Region
		if pi := guard(func() {
			resized = region.Resize(c.Mod.toGts())
			// judged after other regions were resized (a result must not live in memory the next call re-uses)
			gts.Regions{gts.Segment{0, 2}, gts.Segment{3, 4}}.Resize(gts.HeadTail{0, 0})
			region.Resize(gts.Head(0))
		}); pi != nil {
			return panicViolation(fmt.Sprintf("Resize(%s)", c.Mod.text()), pi)
		}
		what := fmt.Sprintf("region %v comp=%v resized by %s (slice [%d,%d) of %d)", c.Segs, c.Comp, c.Mod.text(), lo, hi, n)
		if resized.Len() != len(want) {
			return viol("resize-len", "%s: Len() = %d, want %d (result %v)", what, resized.Len(), len(want), resized)
		}
		for _, seq := range c08Seqs(c.L) {
			var got []byte
			if pi := guard(func() { got = resized.Locate(gts.New(nil, nil, append([]byte(nil), seq...))).Bytes() }); pi != nil {
				return panicViolation("Locate(resized)", pi)
			}
			if exp := modelExtract(want, seq); !bytes.Equal(got, exp) {
				return viol("resize", "%s on %q extracts %q, want %q (result %v)", what, seq, got, exp, resized)
			}
		}
		// mirroring: the mirror image of the region on the reverse complement gives the same bytes
		mirrored := make([][2]int, len(c.Segs))
		for i, s := range c.Segs {
			mirrored[i] = [2]int{c.L - s[1], c.L - s[0]}
		}
		// mirror of a forward region is the same segment list, each mirrored, on the other strand; the order of the
		// segments in reading direction is kept by complementing the mirrored list given in reverse order
		rev := make([][2]int, len(mirrored))
		for i := range mirrored {
			rev[i] = mirrored[len(mirrored)-1-i]
		}
		mregion := buildRegion(rev, !c.Comp, c.Bare)
		for _, seq := range c08Seqs(c.L) {
			var a, b []byte
			if pi := guard(func() {
				s := gts.New(nil, nil, append([]byte(nil), seq...))
				rc := gts.Reverse(gts.Complement(s))
				a = region.Resize(c.Mod.toGts()).Locate(s).Bytes()
				b = mregion.Resize(c.Mod.toGts()).Locate(rc).Bytes()
			}); pi != nil {
				return panicViolation("mirrored Resize/Locate", pi)
			}
			if !bytes.Equal(normU(a), normU(b)) {
				return viol("resize-mirror", "%s extracts %q, its mirror image on the reverse complement extracts %q", what, a, b)
			}
		}
		return nil
	case "locator-den":
		// a bare key selector over features with locations of every kind (mixed strands, nested compounds): the regions
		// are those of the matching features in table order, and each extracts what its location denotes
		var locate gts.Locator
		var err error
		if pi := guard(func() { locate, err = gts.AsLocator("gene") }); pi != nil {
			return panicViolation("AsLocator(gene)", pi)
		}
		if err != nil {
			return viol("locator-parse", "AsLocator(gene) failed: %v", err)
		}
		for _, seqBytes := range c08Seqs(c.L) {
			seq := gts.New(nil, featsToGts(c.Table), append([]byte(nil), seqBytes...))
			var got [][]byte
			if pi := guard(func() {
				for _, r := range locate(seq) {
					got = append(got, append([]byte(nil), r.Locate(seq).Bytes()...))
				}
			}); pi != nil {
				return panicViolation("locator gene / Locate", pi)
			}
			var want [][]byte
			for _, f := range seq.Features() {
				if f.Key != "gene" {
					continue
				}
				ast, ok := fromGts(f.Loc)
				if !ok {
					return viol("malformed", "malformed location %v", f.Loc)
				}
				want = append(want, modelExtract(den(ast), seqBytes))
			}
			if len(got) != len(want) {
				return viol("locator-count", "locator gene returns %d regions for %d gene features (%s)", len(got), len(want), tableString(seq.Features()))
			}
			for i := range want {
				if !bytes.Equal(got[i], want[i]) {
					return viol("locator-den", "locator gene, region %d of table %s on %q: extracts %q, the location denotes %q", i, tableString(seq.Features()), seqBytes, got[i], want[i])
				}
			}
		}
		return nil
	case "locator":
		text := c.Spec
		if c.UseAt {
			text += "@" + c.Mod.text()
		}
		var locate gts.Locator
		var err error
		if pi := guard(func() { locate, err = gts.AsLocator(text) }); pi != nil {
			return panicViolation(fmt.Sprintf("AsLocator(%q)", text), pi)
		}
		if err != nil {
			return viol("locator-parse", "AsLocator(%q) failed: %v", text, err)
		}
		seqs := c08Seqs(c.L)
		// model: base regions as lists of forward segments + strand
		type mreg struct {
			segs [][2]int
			comp bool
		}
		var base []mreg
		fromLoc := func(l Loc) mreg {
			comp := false
			for l.K == "co" && len(l.Parts) == 1 {
				comp = !comp // complement(complement(x)) is x again
				l = l.Parts[0]
			}
			var segs [][2]int
			for _, x := range l.leaves() {
				switch x.K {
				case "pt":
					segs = append(segs, [2]int{x.A, x.A + 1})
				case "bt":
					segs = append(segs, [2]int{x.A, x.A})
				default:
					segs = append(segs, [2]int{x.A, x.B})
				}
			}
			return mreg{segs, comp}
		}
		twoStage := false // X is itself a modifier: whole sequence resized by X, then by M
		var first c08Mod
		switch {
		case c.Spec == "":
			for _, f := range c.Table {
				base = append(base, fromLoc(f.Loc))
			}
		case strings.HasPrefix(c.Spec, "^") || strings.HasPrefix(c.Spec, "$"):
			twoStage = true
			first = c08ParseMod(c.Spec)
			base = append(base, mreg{[][2]int{{0, c.L}}, false})
		case c.Spec[0] >= '0' && c.Spec[0] <= '9' || strings.HasPrefix(c.Spec, "complement("):
			l, perr := parseSimpleLoc(c.Spec)
			if perr != nil {
				skipCase("locator-spec-unreadable")
				return nil
			}
			base = append(base, fromLoc(l))
		default:
			key, clauses, serr := refSelector(c.Spec)
			if serr != nil {
				skipCase("locator-selector-invalid")
				return nil
			}
			for _, f := range c.Table {
				if refAccept(key, clauses, f) {
					base = append(base, fromLoc(f.Loc))
				}
			}
		}
		var got gts.Regions
		carrier := gts.New(nil, featsToGts(c.Table), append([]byte(nil), seqs[0]...))
		// a locator is a value that commands apply to every record of a stream: it must denote the same regions
		// every time it is applied (the comparison below runs for three consecutive applications)
		for round := 0; round < 3; round++ {
			if pi := guard(func() { got = locate(carrier) }); pi != nil {
				return panicViolation(fmt.Sprintf("locator %q applied", text), pi)
			}
			if len(got) != len(base) {
				return viol("locator-count", "locator %q returns %d regions, want %d (application %d)", text, len(got), len(base), round+1)
			}
			for i, b := range base {
				n := 0
				for _, s := range b.segs {
					n += s[1] - s[0]
				}
				want := regionDen(b.segs, b.comp)
				ok := true
				segs, comp := b.segs, b.comp
				if twoStage {
					lo, hi := first.bounds(n)
					if lo < 0 || hi > n {
						skipCase("locator-first-stage-leaves-sequence")
						return nil // outside the generated domain
					}
					// the whole sequence is one forward segment: its slice is again one forward segment
					segs, comp = [][2]int{{lo, hi}}, false
					n = hi - lo
					want = regionDen(segs, comp)
				}
				if c.UseAt {
					lo, hi := c.Mod.bounds(n)
					want, ok = expectedSlice(segs, comp, lo, hi, c.L)
					if !ok {
						skipCase("locator-resize-leaves-sequence")
						return nil
					}
				}
				for _, seq := range seqs {
					var gb []byte
					if pi := guard(func() { gb = got[i].Locate(gts.New(nil, nil, append([]byte(nil), seq...))).Bytes() }); pi != nil {
						return panicViolation("Locate(locator region)", pi)
					}
					if exp := modelExtract(want, seq); !bytes.Equal(gb, exp) {
						return viol("locator", "locator %q region %d (model %v comp=%v) extracts %q, want %q (region %v, application %d)", text, i, b.segs, b.comp, gb, exp, got[i], round+1)
					}
				}
			}
		}
		return nil
	}
	return nil
}

func c08ParseMod(s string) c08Mod {
	parse1 := func(t string) (byte, int) {
		v := 0
		if len(t) > 1 {
			fmt.Sscanf(t[1:], "%d", &v)
		}
		return t[0], v
	}
	if i := strings.Index(s, ".."); i >= 0 {
		a, p := parse1(s[:i])
		b, q := parse1(s[i+2:])
		switch {
		case a == '^' && b == '$':
			return c08Mod{Kind: "headtail", P: p, Q: q}
		case a == '^':
			return c08Mod{Kind: "headhead", P: p, Q: q}
		default:
			return c08Mod{Kind: "tailtail", P: p, Q: q}
		}
	}
	a, p := parse1(s)
	if a == '^' {
		return c08Mod{Kind: "head", P: p}
	}
	return c08Mod{Kind: "tail", P: p}
}

// parseSimpleLoc reads "n", "a..b" or "complement(...)" (the location forms a locator accepts).
func parseSimpleLoc(s string) (Loc, error) {
	if strings.HasPrefix(s, "complement(") && strings.HasSuffix(s, ")") {
		in, err := parseSimpleLoc(s[len("complement(") : len(s)-1])
		return lco(in), err
	}
	var a, b int
	if strings.Contains(s, "..") {
		if _, err := fmt.Sscanf(s, "%d..%d", &a, &b); err != nil {
			return Loc{}, err
		}
		return lrg(a-1, b), nil
	}
	if _, err := fmt.Sscanf(s, "%d", &a); err != nil {
		return Loc{}, err
	}
	return lpt(a - 1), nil
}

func c08Classify(c c08Case) (bool, []string) {
	labels := []string{"mode:" + c.Mode, "mod:" + c.Mod.Kind}
	switch c.Mode {
	case "resize":
		labels = append(labels, fmt.Sprintf("segments=%d", len(c.Segs)))
		n := 0
		bounds := map[int]bool{}
		for _, s := range c.Segs {
			n += s[1] - s[0]
			bounds[n] = true
		}
		lo, hi := c.Mod.bounds(n)
		onb := (bounds[lo] && lo != n) || (bounds[hi] && hi != n)
		if onb {
			labels = append(labels, "on-segment-boundary")
		}
		if c.Comp {
			labels = append(labels, "reverse-strand")
		}
		if lo < 0 || hi > n {
			labels = append(labels, "extends-outward")
		}
		return len(c.Segs) >= 3 || onb || c.Comp, labels
	case "locator":
		if c.UseAt {
			labels = append(labels, "with-@")
		}
		return true, labels
	}
	return true, labels
}

func c08KF(c c08Case, v *Violation) []string { return nil }

var c08Prop = &Prop[c08Case]{ID: "C08", Check: c08Check, Classify: c08Classify, KF: c08KF}

func init() { registerReplay(c08Prop) }

func c08GenMod(t *rapid.T, n, roomUp, roomDown int) c08Mod {
	kind := rapid.SampledFrom([]string{"head", "tail", "headtail", "headhead", "tailtail"}).Draw(t, "modkind")
	// offsets in [-len-3, len+3], then clipped so that the result stays inside the sequence
	off := func(name string) int { return rapid.IntRange(-n-3, n+3).Draw(t, name) }
	m := c08Mod{Kind: kind, P: off("p"), Q: off("q")}
	if kind == "head" || kind == "tail" {
		m.Q = 0
	}
	lo, hi := m.bounds(n)
	// clip by adjusting the offsets
	fix := func(delta *int, cur, min, max int) {
		if cur < min {
			*delta += min - cur
		}
		if cur > max {
			*delta -= cur - max
		}
	}
	switch kind {
	case "head", "tail":
		fix(&m.P, lo, -roomUp, n+roomDown)
	default:
		fix(&m.P, lo, -roomUp, n+roomDown)
		_, hi = m.bounds(n)
		switch kind {
		case "headtail", "tailtail", "headhead":
			fix(&m.Q, hi, -roomUp, n+roomDown)
		}
	}
	return m
}

func c08GenSegs(t *rapid.T) (L int, segs [][2]int) {
	k := drawCount(t, 1, 5, 16, "nseg")
	// lay out k disjoint segments with gaps, then shuffle their order
	pos := drawCount(t, 0, 6, 300, "margin0")
	for i := 0; i < k; i++ {
		n := drawCount(t, 1, 4, 120, "seglen")
		segs = append(segs, [2]int{pos, pos + n})
		pos += n + drawCount(t, 0, 3, 90, "gap")
	}
	L = pos + drawCount(t, 0, 6, 300, "margin1")
	if rapid.IntRange(0, 2).Draw(t, "shuffle") == 0 {
		segs = rapid.Permutation(segs).Draw(t, "order")
	}
	return L, segs
}

func c08Gen(t *rapid.T) c08Case {
	switch rapid.IntRange(0, 5).Draw(t, "mode") {
	case 0:
		kind := rapid.SampledFrom([]string{"head", "tail", "headtail", "headhead", "tailtail"}).Draw(t, "modkind")
		m := c08Mod{Kind: kind, P: rapid.IntRange(-20, 20).Draw(t, "p"), Q: rapid.IntRange(-20, 20).Draw(t, "q")}
		if rapid.IntRange(0, 3).Draw(t, "faroff") == 0 {
			// offsets far outside any sequence: a modifier is text first
			far := []int{-1 << 62, -1<<53 - 1, -1<<32 - 1, -1 << 31, -1000, 1000, 1<<31 - 1, 1 << 31, 1<<32 + 1, 1 << 53, 1 << 62}
			m.P, m.Q = rapid.SampledFrom(far).Draw(t, "farp"), rapid.SampledFrom(append(far, 0, 1, -1)).Draw(t, "farq")
		}
		if kind == "head" || kind == "tail" {
			m.Q = 0
		}
		return c08Case{Mode: "modtext", Mod: m}
	case 1, 2:
		if rapid.IntRange(0, 3).Draw(t, "den") == 0 {
			// bare selector over locations of every kind
			L := rapid.IntRange(4, 20).Draw(t, "L")
			cfg := locCfg{L: L, Hot: []int{0, L}, MaxDepth: 3, MaxParts: 4, Sites: true, MaxSpan: 4}
			n := rapid.IntRange(1, 4).Draw(t, "nfeat")
			var table []Feat
			for i := 0; i < n; i++ {
				canon, _ := fromGts(toGts(genLoc(t, cfg)))
				table = append(table, Feat{Key: rapid.SampledFrom([]string{"gene", "gene", "CDS"}).Draw(t, "key"), Loc: canon, Quals: [][]string{{"label", fmt.Sprintf("f%d", i)}}})
			}
			return c08Case{Mode: "locator-den", L: L, Table: table}
		}
		// locator
		L := rapid.IntRange(8, 30).Draw(t, "L")
		cfg := locCfg{L: L, Hot: []int{0, L}, MaxDepth: 2, MaxParts: 3, Sites: false, MaxSpan: 4}
		table := c19GenTable(t, rapid.IntRange(0, 5).Draw(t, "nfeat"), cfg)
		for i := range table {
			// keep only forward/complement-of-forward locations with disjoint parts so that a region is well defined
			l := table[i].Loc
			segs := [][2]int{}
			comp := l.K == "co"
			for _, x := range l.leaves() {
				if x.K == "pt" {
					segs = append(segs, [2]int{x.A, x.A + 1})
				} else {
					segs = append(segs, [2]int{x.A, x.B})
				}
			}
			parts := make([]Loc, len(segs))
			for j, s := range segs {
				parts[j] = lrg(s[0], s[1])
			}
			nl := ljn(parts...)
			if comp {
				nl = lco(nl)
			}
			table[i].Loc, _ = fromGts(toGts(nl))
			if table[i].Loc.K == "co" && table[i].Loc.Parts[0].K == "co" {
				table[i].Loc = table[i].Loc.Parts[0].Parts[0]
			}
		}
		c := c08Case{Mode: "locator", L: L, Table: table}
		switch rapid.IntRange(0, 4).Draw(t, "spec") {
		case 0:
			c.Spec = ""
			c.UseAt = true
		case 1:
			c.Spec = c19GenSelector(t, false)
			if c.Spec == "" {
				c.Spec = "gene"
			}
		case 2:
			a := rapid.IntRange(1, L).Draw(t, "a")
			b := rapid.IntRange(a, L).Draw(t, "b")
			c.Spec = rapid.SampledFrom([]string{fmt.Sprint(a), fmt.Sprintf("%d..%d", a, b), fmt.Sprintf("complement(%d..%d)", a, b),
				fmt.Sprintf("complement(complement(%d..%d))", a, b), fmt.Sprintf("complement(complement(complement(%d)))", a), fmt.Sprintf("complement(%d)", a)}).Draw(t, "locspec")
		default:
			m := c08GenMod(t, L, 0, 0)
			c.Spec = m.text()
		}
		if c.Spec != "" {
			c.UseAt = rapid.Bool().Draw(t, "useat")
		}
		if c.UseAt {
			// offsets small enough to stay inside for every base region: use zero room and clip to the smallest region
			c.Mod = c08GenMod(t, 1, 0, 0)
			if c.Mod.Kind == "headhead" || c.Mod.Kind == "head" {
				// Head-based offsets >=0 may exceed short regions; keep them in {0,1}
				c.Mod.P, c.Mod.Q = clip(c.Mod.P, 0, 1), clip(c.Mod.Q, 0, 1)
			} else {
				c.Mod.P, c.Mod.Q = clip(c.Mod.P, -1, 0), clip(c.Mod.Q, -1, 0)
				if c.Mod.Kind == "headtail" {
					c.Mod.P = clip(-c.Mod.P, 0, 1)
				}
			}
		}
		return c
	default:
		L, segs := c08GenSegs(t)
		comp := rapid.Bool().Draw(t, "comp")
		n := 0
		for _, s := range segs {
			n += s[1] - s[0]
		}
		first, last := segs[0], segs[len(segs)-1]
		up, down := first[0], L-last[1]
		if comp {
			up, down = L-last[1], first[0]
		}
		return c08Case{Mode: "resize", L: L, Segs: segs, Comp: comp, Bare: rapid.Bool().Draw(t, "bare"), Mod: c08GenMod(t, n, up, down)}
	}
}

func TestC08(t *testing.T) {
	st := newStats("C08")
	defer st.flush()
	rapidPart(t, c08Prop, st, "rapid", pick(30000, 250000), c08Gen)
	if t.Failed() {
		return
	}
	rapidLargePart(t, c08Prop, st, pick(1500, 20000), c08Gen)
	if t.Failed() {
		return
	}
	// exhaustive: 1..4 segments of length 1..2 laid out with gap 1 and margin 3, both strands, every modifier
	// form with every offset pair that keeps the result inside the sequence
	e := enumPart(t, c08Prop, st, "exhaustive-small")
	maxSeg := pick(3, 4)
	var layouts [][]int
	var rec func(cur []int)
	rec = func(cur []int) {
		if len(cur) > 0 {
			layouts = append(layouts, append([]int(nil), cur...))
		}
		if len(cur) == maxSeg {
			return
		}
		for _, n := range []int{1, 2} {
			rec(append(cur, n))
		}
	}
	rec(nil)
	for _, lens := range layouts {
		pos := 3
		var segs [][2]int
		n := 0
		for _, l := range lens {
			segs = append(segs, [2]int{pos, pos + l})
			pos += l + 1
			n += l
		}
		L := pos - 1 + 3
		for _, comp := range []bool{false, true} {
			for _, kind := range []string{"head", "tail", "headtail", "headhead", "tailtail"} {
				for p := -n - 3; p <= n+3; p++ {
					for q := -n - 3; q <= n+3; q++ {
						if (kind == "head" || kind == "tail") && q != 0 {
							continue
						}
						m := c08Mod{Kind: kind, P: p, Q: q}
						lo, hi := m.bounds(n)
						if lo < -3 || hi > n+3 {
							continue
						}
						if !e.try(c08Case{Mode: "resize", L: L, Segs: segs, Comp: comp, Mod: m}) {
							return
						}
					}
				}
			}
		}
	}
	e.done(true)
}
