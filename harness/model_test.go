package harness

// Reference model for feature locations: an own AST, its denotation (ordered, stranded list of
// residues and zero-length sites) and its partial markers. Nothing here calls gts's
// Shift/Expand/Normalize/Reverse/Region/Locate; gts values are only converted from/to the AST.

import (
	"fmt"
	"sort"
	"strings"

	"github.com/go-gts/gts"
)

// Loc is the model's location AST (0-based, half-open coordinates like gts's own fields).
type Loc struct {
	K     string `json:"k"`           // pt, bt, rg, am, jn, or, co
	A     int    `json:"a,omitempty"` // pt: position; bt: gap; rg/am: start
	B     int    `json:"b,omitempty"` // rg/am: end (exclusive)
	P5    bool   `json:"p5,omitempty"`
	P3    bool   `json:"p3,omitempty"`
	Parts []Loc  `json:"parts,omitempty"` // jn/or: parts; co: exactly one
}

func lpt(p int) Loc        { return Loc{K: "pt", A: p} }
func lbt(g int) Loc        { return Loc{K: "bt", A: g} }
func lrg(s, e int) Loc     { return Loc{K: "rg", A: s, B: e} }
func lam(s, e int) Loc     { return Loc{K: "am", A: s, B: e} }
func ljn(parts ...Loc) Loc { return Loc{K: "jn", Parts: parts} }
func lor(parts ...Loc) Loc { return Loc{K: "or", Parts: parts} }
func lco(x Loc) Loc        { return Loc{K: "co", Parts: []Loc{x}} }
func lprg(s, e int, p5, p3 bool) Loc {
	return Loc{K: "rg", A: s, B: e, P5: p5, P3: p3}
}

func (l Loc) String() string {
	switch l.K {
	case "pt":
		return fmt.Sprintf("P%d", l.A)
	case "bt":
		return fmt.Sprintf("B%d", l.A)
	case "rg":
		s := ""
		if l.P5 {
			s += "<"
		}
		s += fmt.Sprintf("R[%d,%d)", l.A, l.B)
		if l.P3 {
			s += ">"
		}
		return s
	case "am":
		return fmt.Sprintf("A[%d,%d)", l.A, l.B)
	case "co":
		return "co(" + l.Parts[0].String() + ")"
	default:
		ss := make([]string, len(l.Parts))
		for i, p := range l.Parts {
			ss[i] = p.String()
		}
		return l.K + "(" + strings.Join(ss, ",") + ")"
	}
}

// toGts builds the gts value through the public constructors (the documented way): Join and Order
// reduce their arguments, Complement() of a complement unwraps.
func toGts(l Loc) gts.Location {
	switch l.K {
	case "pt":
		return gts.Point(l.A)
	case "bt":
		return gts.Between(l.A)
	case "rg":
		return gts.PartialRange(l.A, l.B, gts.Partial{Partial5: l.P5, Partial3: l.P3})
	case "am":
		return gts.Ambiguous{Start: l.A, End: l.B}
	case "jn":
		parts := make([]gts.Location, len(l.Parts))
		for i, p := range l.Parts {
			parts[i] = toGts(p)
		}
		return gts.Join(parts...)
	case "or":
		parts := make([]gts.Location, len(l.Parts))
		for i, p := range l.Parts {
			parts[i] = toGts(p)
		}
		return gts.Order(parts...)
	case "co":
		return toGts(l.Parts[0]).Complement()
	}
	panic("harness: bad Loc kind " + l.K)
}

// toGtsRaw builds the value as literals, without any reduction.
func toGtsRaw(l Loc) gts.Location {
	switch l.K {
	case "jn":
		parts := make(gts.Joined, len(l.Parts))
		for i, p := range l.Parts {
			parts[i] = toGtsRaw(p)
		}
		return parts
	case "or":
		parts := make(gts.Ordered, len(l.Parts))
		for i, p := range l.Parts {
			parts[i] = toGtsRaw(p)
		}
		return parts
	case "co":
		return gts.Complemented{Location: toGtsRaw(l.Parts[0])}
	case "rg":
		return gts.Ranged{Start: l.A, End: l.B, Partial: gts.Partial{Partial5: l.P5, Partial3: l.P3}}
	default:
		return toGts(l)
	}
}

// fromGts converts a gts location into the AST. ok=false for nil or unknown dynamic types
// (a nil part is what a broken operation leaves behind).
func fromGts(loc gts.Location) (Loc, bool) {
	switch v := loc.(type) {
	case gts.Point:
		return lpt(int(v)), true
	case gts.Between:
		return lbt(int(v)), true
	case gts.Ranged:
		return lprg(v.Start, v.End, v.Partial.Partial5, v.Partial.Partial3), true
	case gts.Ambiguous:
		return lam(v.Start, v.End), true
	case gts.Joined:
		out := Loc{K: "jn"}
		for _, p := range v {
			q, ok := fromGts(p)
			if !ok {
				return Loc{}, false
			}
			out.Parts = append(out.Parts, q)
		}
		return out, true
	case gts.Ordered:
		out := Loc{K: "or"}
		for _, p := range v {
			q, ok := fromGts(p)
			if !ok {
				return Loc{}, false
			}
			out.Parts = append(out.Parts, q)
		}
		return out, true
	case gts.Complemented:
		q, ok := fromGts(v.Location)
		if !ok {
			return Loc{}, false
		}
		return lco(q), true
	}
	return Loc{}, false
}

// wellFormed reports structural sanity of an AST produced by gts (positive-length ranges etc.).
func (l Loc) wellFormed() bool {
	switch l.K {
	case "pt", "bt":
		return true
	case "rg", "am":
		return l.A < l.B
	case "co":
		return len(l.Parts) == 1 && l.Parts[0].wellFormed()
	case "jn", "or":
		if len(l.Parts) == 0 {
			return false
		}
		for _, p := range l.Parts {
			if !p.wellFormed() {
				return false
			}
		}
		return true
	}
	return false
}

// Elem is one element of a denotation: a residue (Pos, strand) or a zero-length site at gap Pos.
type Elem struct {
	Pos  int  `json:"p"`
	Rev  bool `json:"r,omitempty"`
	Site bool `json:"s,omitempty"`
	Amb  bool `json:"a,omitempty"`
}

func (e Elem) String() string {
	s := fmt.Sprint(e.Pos)
	if e.Site {
		s = "^" + s
	}
	if e.Amb {
		s += "?"
	}
	if e.Rev {
		s += "-"
	}
	return s
}

// den returns the denotation in the feature's 5'->3' reading order.
func den(l Loc) []Elem {
	switch l.K {
	case "pt":
		return []Elem{{Pos: l.A}}
	case "bt":
		return []Elem{{Pos: l.A, Site: true}}
	case "rg", "am":
		out := make([]Elem, 0, l.B-l.A)
		for p := l.A; p < l.B; p++ {
			out = append(out, Elem{Pos: p, Amb: l.K == "am"})
		}
		return out
	case "jn", "or":
		var out []Elem
		for _, p := range l.Parts {
			out = append(out, den(p)...)
		}
		return out
	case "co":
		in := den(l.Parts[0])
		out := make([]Elem, len(in))
		for i, e := range in {
			e.Rev = !e.Rev
			out[len(in)-1-i] = e
		}
		return out
	}
	return nil
}

// Marker is a partial marker in sequence coordinates: '<' on the left of residue Pos (Right=false)
// or '>' on the right of residue Pos (Right=true). Complementing does not move markers.
type Marker struct {
	Pos   int  `json:"p"`
	Right bool `json:"r,omitempty"`
}

func (m Marker) String() string {
	if m.Right {
		return fmt.Sprintf("%d>", m.Pos)
	}
	return fmt.Sprintf("<%d", m.Pos)
}

func markers(l Loc) []Marker {
	switch l.K {
	case "rg":
		var out []Marker
		if l.P5 {
			out = append(out, Marker{Pos: l.A})
		}
		if l.P3 {
			out = append(out, Marker{Pos: l.B - 1, Right: true})
		}
		return out
	case "jn", "or", "co":
		var out []Marker
		for _, p := range l.Parts {
			out = append(out, markers(p)...)
		}
		return out
	}
	return nil
}

// residues drops the sites and collapses adjacent identical elements (the documented reduction
// "if the location is equivalent to the last element, nothing happens").
func residues(d []Elem) []Elem {
	out := []Elem{}
	for _, e := range d {
		if e.Site {
			continue
		}
		if n := len(out); n > 0 && out[n-1] == e {
			continue
		}
		out = append(out, e)
	}
	return out
}

// collapse removes adjacent identical elements but keeps sites.
func collapse(d []Elem) []Elem {
	out := []Elem{}
	for _, e := range d {
		if n := len(out); n > 0 && out[n-1] == e {
			continue
		}
		out = append(out, e)
	}
	return out
}

func hasResidue(d []Elem) bool {
	for _, e := range d {
		if !e.Site {
			return true
		}
	}
	return false
}

func hasSite(d []Elem) bool {
	for _, e := range d {
		if e.Site {
			return true
		}
	}
	return false
}

func sameElems(a, b []Elem) bool {
	if len(a) != len(b) {
		return false
	}
	for i := range a {
		if a[i] != b[i] {
			return false
		}
	}
	return true
}

// ignoreAmb clears the ambiguity flag (used where the statement speaks of residues only).
func ignoreAmb(d []Elem) []Elem {
	out := make([]Elem, len(d))
	for i, e := range d {
		e.Amb = false
		out[i] = e
	}
	return out
}

// outerMarkers removes markers that sit on the junction of two residues the feature denotes
// consecutively (same strand, adjacent in the reading order): these are not outer ends, the
// documented forced merge of abutting ranges drops exactly those. Result sorted and de-duplicated.
func outerMarkers(d []Elem, ms []Marker) []Marker {
	return outerMarkersCirc(d, ms, 0)
}

// outerMarkersCirc: with L>0 the residues L-1 and 0 also count as consecutive (circular sequence).
func outerMarkersCirc(d []Elem, ms []Marker, L int) []Marker {
	res := residues(d)
	junction := map[[2]int]bool{} // {p, p+1} denoted consecutively
	for i := 0; i+1 < len(res); i++ {
		a, b := res[i], res[i+1]
		if a.Rev != b.Rev {
			continue
		}
		if !a.Rev && b.Pos == a.Pos+1 {
			junction[[2]int{a.Pos, b.Pos}] = true
		}
		if a.Rev && b.Pos == a.Pos-1 {
			junction[[2]int{b.Pos, a.Pos}] = true
		}
		if L > 1 && ((!a.Rev && a.Pos == L-1 && b.Pos == 0) || (a.Rev && a.Pos == 0 && b.Pos == L-1)) {
			junction[[2]int{L - 1, L}] = true // marker (L-1,'>')
			junction[[2]int{-1, 0}] = true    // marker (0,'<')
		}
	}
	seen := map[Marker]bool{}
	out := []Marker{}
	for _, m := range ms {
		if m.Right && junction[[2]int{m.Pos, m.Pos + 1}] {
			continue
		}
		if !m.Right && junction[[2]int{m.Pos - 1, m.Pos}] {
			continue
		}
		if !seen[m] {
			seen[m] = true
			out = append(out, m)
		}
	}
	sort.Slice(out, func(i, j int) bool {
		if out[i].Pos != out[j].Pos {
			return out[i].Pos < out[j].Pos
		}
		return !out[i].Right && out[j].Right
	})
	return out
}

func sameMarkers(a, b []Marker) bool {
	if len(a) != len(b) {
		return false
	}
	for i := range a {
		if a[i] != b[i] {
			return false
		}
	}
	return true
}

// posMap is a position map of an edit operation: residues and gaps. A residue maps to at most one
// position; a gap may legitimately map to several (either side of an insertion).
type posMap struct {
	res func(p int) (int, bool)
	gap func(g int) []int
}

func mapDen(d []Elem, m posMap) []Elem {
	out := []Elem{}
	for _, e := range d {
		if e.Site {
			gs := m.gap(e.Pos)
			if len(gs) > 0 {
				e.Pos = gs[0]
				out = append(out, e)
			}
			continue
		}
		if q, ok := m.res(e.Pos); ok {
			e.Pos = q
			out = append(out, e)
		}
	}
	return out
}

func mapMarkers(ms []Marker, m posMap) []Marker {
	out := []Marker{}
	for _, k := range ms {
		if q, ok := m.res(k.Pos); ok {
			out = append(out, Marker{Pos: q, Right: k.Right})
		}
	}
	return out
}

func insertMap(i, n int) posMap {
	return posMap{
		res: func(p int) (int, bool) {
			if p < i {
				return p, true
			}
			return p + n, true
		},
		gap: func(g int) []int {
			switch {
			case g < i:
				return []int{g}
			case g > i:
				return []int{g + n}
			default:
				return []int{i, i + n}
			}
		},
	}
}

func deleteMap(i, n int) posMap {
	return posMap{
		res: func(p int) (int, bool) {
			switch {
			case p < i:
				return p, true
			case p < i+n:
				return 0, false
			default:
				return p - n, true
			}
		},
		gap: func(g int) []int {
			switch {
			case g <= i:
				return []int{g}
			case g <= i+n:
				return []int{i}
			default:
				return []int{g - n}
			}
		},
	}
}

func rotateMap(L, n int) posMap {
	mod := func(x int) int { return ((x % L) + L) % L }
	return posMap{
		res: func(p int) (int, bool) { return mod(p + n), true },
		gap: func(g int) []int { return []int{mod(g + n)} },
	}
}

func reverseMap(L int) posMap {
	return posMap{
		res: func(p int) (int, bool) { return L - 1 - p, true },
		gap: func(g int) []int { return []int{L - g} },
	}
}

func shiftMap(off int) posMap {
	return posMap{
		res: func(p int) (int, bool) { return p + off, true },
		gap: func(g int) []int { return []int{g + off} },
	}
}

// bounds checks that every coordinate of the location lies inside a sequence of length L
// (residues in [0,L), gaps and exclusive ends in [0,L]).
func (l Loc) inBounds(L int) bool {
	switch l.K {
	case "pt":
		return 0 <= l.A && l.A < L
	case "bt":
		return 0 <= l.A && l.A <= L
	case "rg", "am":
		return 0 <= l.A && l.A < l.B && l.B <= L
	default:
		for _, p := range l.Parts {
			if !p.inBounds(L) {
				return false
			}
		}
		return true
	}
}

func elemsString(d []Elem) string {
	ss := make([]string, len(d))
	for i, e := range d {
		ss[i] = e.String()
	}
	return "[" + strings.Join(ss, " ") + "]"
}

func markersString(ms []Marker) string {
	ss := make([]string, len(ms))
	for i, m := range ms {
		ss[i] = m.String()
	}
	return "{" + strings.Join(ss, " ") + "}"
}

// depth and part statistics used by classifiers.
func (l Loc) depth() int {
	d := 0
	for _, p := range l.Parts {
		if x := p.depth(); x > d {
			d = x
		}
	}
	if len(l.Parts) > 0 {
		return d + 1
	}
	return 0
}

func (l Loc) leaves() []Loc {
	if len(l.Parts) == 0 {
		return []Loc{l}
	}
	var out []Loc
	for _, p := range l.Parts {
		out = append(out, p.leaves()...)
	}
	return out
}

func (l Loc) hasKind(k string) bool {
	if l.K == k {
		return true
	}
	for _, p := range l.Parts {
		if p.hasKind(k) {
			return true
		}
	}
	return false
}

// coords lists every coordinate that bounds a leaf (start, end for ranges; p, p+1 for points; g for sites).
func (l Loc) coords() []int {
	var out []int
	for _, x := range l.leaves() {
		switch x.K {
		case "pt":
			out = append(out, x.A, x.A+1)
		case "bt":
			out = append(out, x.A)
		default:
			out = append(out, x.A, x.B)
		}
	}
	return out
}

// canonFull rewrites every maximal cyclic run of same-strand, cyclically consecutive residues that
// covers the whole circle (length >= L) as the canonical full-length run 0..L-1 (forward) or L-1..0
// (reverse). Reports whether any run was rewritten.
func canonFull(res []Elem, L int) ([]Elem, bool) {
	if L <= 0 {
		return res, false
	}
	out := []Elem{}
	any := false
	for i := 0; i < len(res); {
		j := i + 1
		for j < len(res) && res[j].Rev == res[i].Rev && res[j].Amb == res[i].Amb && !res[j].Site && !res[i].Site {
			step := 1
			if res[i].Rev {
				step = -1
			}
			if res[j].Pos != ((res[j-1].Pos+step)%L+L)%L {
				break
			}
			j++
		}
		if j-i >= L && !res[i].Site {
			any = true
			for k := 0; k < L; k++ {
				e := res[i]
				if e.Rev {
					e.Pos = L - 1 - k
				} else {
					e.Pos = k
				}
				out = append(out, e)
			}
		} else {
			out = append(out, res[i:j]...)
		}
		i = j
	}
	return out, any
}

// elemSet returns the distinct elements sorted by (position, strand, site).
func elemSet(d []Elem) []Elem {
	seen := map[Elem]bool{}
	out := []Elem{}
	for _, e := range d {
		if !seen[e] {
			seen[e] = true
			out = append(out, e)
		}
	}
	sort.Slice(out, func(i, j int) bool {
		if out[i].Pos != out[j].Pos {
			return out[i].Pos < out[j].Pos
		}
		if out[i].Rev != out[j].Rev {
			return !out[i].Rev
		}
		if out[i].Site != out[j].Site {
			return !out[i].Site
		}
		return !out[i].Amb && out[j].Amb
	})
	return out
}
