package harness

// Shared rapid generators: sequences, locations (boundary-biased), features, tables.

import (
	"bytes"
	"fmt"
	"io"
	"strings"
	"testing"

	"github.com/go-gts/gts"
	"pgregory.net/rapid"
)

// idAlphabet: printable bytes that gts.Complement leaves unchanged, pairwise distinct, so that a
// byte identifies the position (and, through complementation being the identity on them, extraction
// results can be compared position by position).
var idAlphabet = func() []byte {
	out := []byte{}
	for c := byte(33); c <= 126; c++ {
		switch c {
		case 'A', 'C', 'G', 'T', 'U', 'R', 'Y', 'K', 'M', 'B', 'D', 'H', 'V', 'N', 'S', 'W',
			'a', 'c', 'g', 't', 'u', 'r', 'y', 'k', 'm', 'b', 'd', 'h', 'v', 'n', 's', 'w', '>':
			continue
		}
		out = append(out, c)
	}
	return out
}()

// idBytes returns n identifying bytes starting at offset off of the alphabet: distinct while n fits the alphabet;
// beyond that the sequence continues pseudo-randomly (not periodically: a periodic sequence whose length is a
// multiple of the period equals some of its own rotations, which made a rotated output look un-rotated).
func idBytes(off, n int) []byte {
	out := make([]byte, n)
	for i := range out {
		if i < len(idAlphabet) {
			out[i] = idAlphabet[(off+i)%len(idAlphabet)]
		} else {
			out[i] = idAlphabet[splitmix(uint64(off)*1000003+uint64(i))%uint64(len(idAlphabet))]
		}
	}
	return out
}

// Feat is the JSON form of a feature.
type Feat struct {
	Key   string     `json:"key"`
	Loc   Loc        `json:"loc"`
	Quals [][]string `json:"quals,omitempty"` // gts.Props layout: [name, value...]
	Raw   bool       `json:"raw,omitempty"`   // build the location from literals (Joined{...}) instead of the constructors
}

func (f Feat) label() string {
	for _, q := range f.Quals {
		if q[0] == "label" && len(q) > 1 {
			return q[1]
		}
	}
	return ""
}

func propsOf(q [][]string) gts.Props {
	out := make(gts.Props, len(q))
	for i, row := range q {
		out[i] = append([]string(nil), row...)
	}
	return out
}

func (f Feat) toGts() gts.Feature {
	if f.Raw {
		return gts.NewFeature(f.Key, toGtsRaw(f.Loc), propsOf(f.Quals))
	}
	return gts.NewFeature(f.Key, toGts(f.Loc), propsOf(f.Quals))
}

func featsToGts(ff []Feat) gts.FeatureSlice {
	if ff == nil {
		return nil
	}
	out := make(gts.FeatureSlice, len(ff))
	for i, f := range ff {
		out[i] = f.toGts()
	}
	return out
}

func labelOf(f gts.Feature) string {
	if v := f.Props.Get("label"); len(v) > 0 {
		return v[0]
	}
	return ""
}

func propsEqual(a gts.Props, b [][]string) bool {
	if len(a) != len(b) {
		return false
	}
	for i := range a {
		if len(a[i]) != len(b[i]) {
			return false
		}
		for j := range a[i] {
			if a[i][j] != b[i][j] {
				return false
			}
		}
	}
	return true
}

// locCfg steers the location generator.
type locCfg struct {
	L        int   // sequence length (coordinates in [0,L])
	Hot      []int // boundary-biased coordinates (clipped to the legal range of each draw)
	MaxDepth int   // nesting depth of jn/or/co wrappers
	MaxParts int
	Ambig    bool
	Sites    bool
	MaxSpan  int // 0 = unlimited length of ranges
}

func clip(x, lo, hi int) int {
	if x < lo {
		return lo
	}
	if x > hi {
		return hi
	}
	return x
}

// coord draws a coordinate in [lo,hi], boundary-biased.
func (c locCfg) coord(t *rapid.T, lo, hi int, name string) int {
	if lo >= hi {
		return lo
	}
	if len(c.Hot) > 0 && rapid.IntRange(0, 9).Draw(t, name+"-hot") < 6 {
		h := rapid.SampledFrom(c.Hot).Draw(t, name+"-h")
		if h >= lo && h <= hi {
			return h
		}
		return clip(h, lo, hi)
	}
	return rapid.IntRange(lo, hi).Draw(t, name)
}

func (c locCfg) leaf(t *rapid.T) Loc {
	if c.L == 0 {
		return lbt(0)
	}
	kinds := []string{"pt", "rg", "rg", "rg"}
	if c.Sites {
		kinds = append(kinds, "bt")
	}
	if c.Ambig {
		kinds = append(kinds, "am")
	}
	switch k := rapid.SampledFrom(kinds).Draw(t, "leaf"); k {
	case "pt":
		return lpt(c.coord(t, 0, c.L-1, "p"))
	case "bt":
		return lbt(c.coord(t, 0, c.L, "g"))
	default:
		s := c.coord(t, 0, c.L-1, "s")
		hi := c.L
		if c.MaxSpan > 0 && s+c.MaxSpan < hi {
			hi = s + c.MaxSpan
		}
		e := c.coord(t, s+1, hi, "e")
		if k == "am" {
			return lam(s, e)
		}
		return lprg(s, e, rapid.IntRange(0, 3).Draw(t, "p5") == 0, rapid.IntRange(0, 3).Draw(t, "p3") == 0)
	}
}

func (c locCfg) node(t *rapid.T, depth int) Loc {
	if depth <= 0 || rapid.IntRange(0, 9).Draw(t, "isleaf") < 4 {
		return c.leaf(t)
	}
	switch rapid.SampledFrom([]string{"jn", "jn", "or", "co"}).Draw(t, "wrap") {
	case "co":
		return lco(c.node(t, depth-1))
	case "or":
		n := rapid.IntRange(1, c.MaxParts).Draw(t, "nparts")
		parts := make([]Loc, n)
		for i := range parts {
			parts[i] = c.node(t, depth-1)
		}
		return lor(parts...)
	default:
		n := rapid.IntRange(1, c.MaxParts).Draw(t, "nparts")
		parts := make([]Loc, n)
		for i := range parts {
			parts[i] = c.node(t, depth-1)
		}
		return ljn(parts...)
	}
}

// genLoc draws a location AST and canonicalises it through the public constructors: the returned AST
// is exactly the structure of the gts value that toGts builds (reductions already applied), so
// toGts(fromGts(toGts(x))) is structurally the same value where the constructors are idempotent.
func genLoc(t *rapid.T, c locCfg) Loc {
	for tries := 0; ; tries++ {
		raw := c.node(t, c.MaxDepth)
		g := toGts(raw)
		canon, ok := fromGts(g)
		if !ok {
			panic("harness: constructor built a value the model cannot read")
		}
		// constructors are not idempotent on a few shapes (reducer quirks); keep only stable ASTs so that
		// a Case rebuilds the same value on replay.
		again, _ := fromGts(toGts(canon))
		if fmt.Sprint(again) == fmt.Sprint(canon) || tries > 8 {
			if fmt.Sprint(again) != fmt.Sprint(canon) {
				return c.leaf(t)
			}
			return canon
		}
	}
}

var featKeys = []string{"gene", "CDS", "misc_feature", "variation", "exon", "mRNA", "repeat_region"}

// genFeats draws n labelled features (labels prefix0..). Qualifiers are few and small; identity is the label.
// insdcFeatureKeys: the feature keys of the INSDC feature table definition (harness's own list, "source" left out).
var insdcFeatureKeys = strings.Fields(`assembly_gap C_region CDS centromere D-loop D_segment exon gap gene iDNA intron J_segment mat_peptide
	misc_binding misc_difference misc_feature misc_recomb misc_RNA misc_structure mobile_element modified_base mRNA ncRNA N_region
	old_sequence operon oriT polyA_site precursor_RNA prim_transcript primer_bind propeptide protein_bind regulatory repeat_region
	rep_origin rRNA S_region sig_peptide stem_loop STS telomere tmRNA transit_peptide tRNA unsure V_region V_segment variation
	3'UTR 5'UTR`)

func genFeats(t *rapid.T, c locCfg, n int, prefix string, allowSource bool) []Feat {
	out := make([]Feat, n)
	for i := range out {
		key := rapid.SampledFrom(featKeys).Draw(t, "key")
		if rapid.IntRange(0, 5).Draw(t, "anykey") == 0 {
			// any key of the INSDC feature table definition: no operation may treat one of them specially (only
			// "source" has a role of its own)
			key = rapid.SampledFrom(insdcFeatureKeys).Draw(t, "insdckey")
		}
		if allowSource && rapid.IntRange(0, 5).Draw(t, "src") == 0 {
			key = "source"
		}
		f := Feat{Key: key, Loc: genLoc(t, c)}
		f.Quals = append(f.Quals, []string{"label", fmt.Sprintf("%s%d", prefix, i)})
		if rapid.Bool().Draw(t, "hasq") {
			f.Quals = append(f.Quals, []string{"note", rapid.SampledFrom([]string{"x", "y z", ""}).Draw(t, "note")})
		}
		if key == "source" && rapid.Bool().Draw(t, "moltype") {
			// what a source feature says about the molecule must not change what an operation does to residues or locations
			f.Quals = append(f.Quals, []string{"mol_type", rapid.SampledFrom([]string{"genomic DNA", "mRNA", "genomic RNA", "other RNA", "unassigned DNA"}).Draw(t, "mt")})
		}
		out[i] = f
	}
	return out
}

// hotAround returns the boundary coordinates for an edit at index i of length n in a sequence of length L.
func hotAround(L, i, n int) []int {
	cands := []int{i - 1, i, i + 1, i + n - 1, i + n, i + n + 1, 0, L - 1, L, 1}
	out := []int{}
	for _, x := range cands {
		if x >= 0 && x <= L {
			out = append(out, x)
		}
	}
	return out
}

// byLabel groups the features of a table by their /label value.
func byLabel(ff gts.FeatureSlice) map[string][]gts.Feature {
	out := map[string][]gts.Feature{}
	for _, f := range ff {
		out[labelOf(f)] = append(out[labelOf(f)], f)
	}
	return out
}

// ---- scope ------------------------------------------------------------------------------------------
// The main random parts stay inside a small scope (short sequences, few parts), where boundary coincidences are
// dense and the exhaustive sweeps live. The "rapid-large" parts re-use the same generators with genLarge set:
// lengths up to 5000 (around powers of two and of ten), more parts, more features, longer guests - so that nothing a
// check decides depends on the small scope (a defect that needs a coordinate >= 256 or a tenth part).
var genLarge bool

var magicLens = []int{15, 16, 17, 31, 32, 33, 63, 64, 65, 99, 100, 101, 127, 128, 129, 255, 256, 257, 511, 512, 513, 999, 1000, 1001, 1023, 1024, 1025, 4095, 4096, 4097}

// drawLen draws a length in [lo,small] in the small scope; in the large scope from (small, 5000].
func drawLen(t *rapid.T, lo, small int, name string) int {
	if !genLarge {
		return rapid.IntRange(lo, small).Draw(t, name)
	}
	if rapid.Bool().Draw(t, name+"-magic") {
		return rapid.SampledFrom(magicLens).Draw(t, name)
	}
	return rapid.IntRange(small+1, 5000).Draw(t, name)
}

// drawCount draws a count in [lo,small] in the small scope, in [lo,large] in the large scope.
func drawCount(t *rapid.T, lo, small, large int, name string) int {
	if genLarge {
		return rapid.IntRange(lo, large).Draw(t, name)
	}
	return rapid.IntRange(lo, small).Draw(t, name)
}

func scopeParts(small int) int {
	if genLarge {
		return 3 * small
	}
	return small
}

// rapidLargePart runs gen in the large scope.
func rapidLargePart[C any](t *testing.T, p *Prop[C], st *Stats, n int, gen func(*rapid.T) C) {
	genLarge = true
	defer func() { genLarge = false }()
	rapidPart(t, p, st, "rapid-large", n, gen)
}

// magnitudeLens: lengths at which size-dependent code paths (buffer sizes, chunked or parallel processing) switch:
// powers of two and multiples of 65536, each with its neighbours.
func magnitudeLens(deep bool) []int {
	var out []int
	top := 18
	if deep {
		top = 21
	}
	for k := 9; k <= top; k++ {
		p := 1 << k
		out = append(out, p-1, p, p+1)
	}
	for _, m := range []int{3, 5, 6, 7} {
		if p := m * 65536; deep || p <= 1<<18+65536 {
			out = append(out, p-1, p, p+1)
		}
	}
	return append(out, 70000, 70001, 100000)
}

func bitLen(n int) int {
	k := 0
	for n > 1 {
		n >>= 1
		k++
	}
	return k
}

// magnitudeLensShort: the subset used where one case costs time proportional to many copies of the sequence.
func magnitudeLensShort(deep bool) []int {
	if deep {
		return magnitudeLens(false)
	}
	return []int{4095, 4096, 4097, 65535, 65536, 65537, 131072, 196608, 262144}
}

// ---- twins -------------------------------------------------------------------------------------------
// genTwins makes the table generators list some feature twice, verbatim (same key, qualifiers, label, location):
// an operation must keep both entries. multOf tells the checks how often a label is expected.
var genTwins bool

func addTwins(t *rapid.T, ff []Feat, name string) []Feat {
	if !genTwins || len(ff) == 0 {
		return ff
	}
	k := rapid.IntRange(0, len(ff)-1).Draw(t, name+"-twin")
	at := rapid.SampledFrom([]int{k + 1, k + 1, len(ff), 0}).Draw(t, name+"-at")
	out := append([]Feat{}, ff[:at]...)
	out = append(out, ff[k])
	return append(out, ff[at:]...)
}

func multOf(ff []Feat, f Feat) int {
	n := 0
	for _, g := range ff {
		if g.label() == f.label() {
			n++
		}
	}
	return n
}

func rapidTwinsPart[C any](t *testing.T, p *Prop[C], st *Stats, n int, gen func(*rapid.T) C) {
	genTwins = true
	defer func() { genTwins = false }()
	rapidPart(t, p, st, "rapid-twins", n, gen)
}

// ---- delivery: the same bytes through io.Readers that hand them over differently --------------------------------

// deliveryNames lists the reader behaviours (all within the io.Reader contract: never (0, nil)).
var deliveryNames = []string{"whole", "one-byte", "7-byte", "4095-byte", "half", "data-with-eof", "ragged", "4097-byte"}

type chunkReader struct {
	data  []byte
	sizes []int // cycled
	k     int
	eofW  bool // the last bytes come together with io.EOF
}

func (r *chunkReader) Read(p []byte) (int, error) {
	if len(r.data) == 0 {
		return 0, io.EOF
	}
	if len(p) == 0 {
		return 0, nil
	}
	n := r.sizes[r.k%len(r.sizes)]
	r.k++
	if n <= 0 { // half of what is asked for, at least one
		n = (len(p) + 1) / 2
	}
	n = minInt(n, minInt(len(p), len(r.data)))
	copy(p, r.data[:n])
	r.data = r.data[n:]
	if r.eofW && len(r.data) == 0 {
		return n, io.EOF
	}
	return n, nil
}

// deliver returns a reader over data that behaves like deliveryNames[how].
func deliver(data []byte, how int) io.Reader {
	switch how % len(deliveryNames) {
	case 1:
		return &chunkReader{data: data, sizes: []int{1}}
	case 2:
		return &chunkReader{data: data, sizes: []int{7}}
	case 3:
		return &chunkReader{data: data, sizes: []int{4095}}
	case 4:
		return &chunkReader{data: data, sizes: []int{0}}
	case 5:
		return &chunkReader{data: data, sizes: []int{1 << 30}, eofW: true}
	case 6:
		return &chunkReader{data: data, sizes: []int{1, 2, 3, 5, 8, 13, 21, 34, 55, 89, 144, 233, 377, 610, 987, 1597, 2584, 4096}}
	case 7:
		return &chunkReader{data: data, sizes: []int{4096, 1}}
	}
	return bytes.NewReader(data)
}
