package harness

// Process-level runner for the gts binary built from the tree under test.

import (
	"bytes"
	"context"
	"fmt"
	"os"
	"os/exec"
	"path/filepath"
	"strings"
	"sync"
	"syscall"
	"time"
	"unsafe"

	"github.com/go-gts/gts"
	"github.com/go-gts/gts/seqio"
)

var (
	gtsBinOnce sync.Once
	gtsBinPath string
)

// gtsBin returns the binary built by the driver (VERIF_GTS_BIN) or builds it on first use.
func gtsBin() string {
	gtsBinOnce.Do(func() {
		if p := os.Getenv("VERIF_GTS_BIN"); p != "" {
			gtsBinPath = p
			return
		}
		dir := filepath.Join(outDir(), "gtsbin")
		os.MkdirAll(dir, 0o755)
		gtsBinPath = filepath.Join(dir, fmt.Sprintf("gts-%d", os.Getpid()))
		cmd := exec.Command("go", "build", "-o", gtsBinPath, "github.com/go-gts/gts/cmd/gts")
		cmd.Env = append(os.Environ(), "GOFLAGS=-mod=mod", "GOPROXY=off", "GOSUMDB=off", "GOTOOLCHAIN=local")
		if out, err := cmd.CombinedOutput(); err != nil {
			panic(fmt.Sprintf("building cmd/gts: %v\n%s", err, out))
		}
	})
	return gtsBinPath
}

type cliResult struct {
	Out    []byte // stdout, or the -o file when one was requested
	Exit   int
	Stderr string
}

// cliEnv is a scratch HOME / cache / tmp directory for one history.
type cliEnv struct {
	dir     string
	sin     int  // how standard input is handed over: 0 a pipe, 1 a regular file, 2 a regular file whose first line the caller has already consumed, 3 a terminal (the input is then a file named as the last argument)
	stale   bool // -o names a file that already exists and is longer than the output
	inPlace bool // with sin == 1 and an output file: -o names the very file standard input is redirected from
	envMode int  // which environment variables point at the cache directory (0: XDG_CACHE_HOME, 1: HOME only, 2: nothing usable, 3: relative path and another locale / time zone)
	piped   bool // secondary input files (pool files named in the arguments) are handed over as pipes (/dev/fd/N), as a shell's process substitution does
}

// withEnv returns the environment with another set of environment variables for gts.
func (e cliEnv) withEnv(mode int) cliEnv { e.envMode = mode; return e }

// withPiped returns the environment in which secondary input files arrive through pipes.
func (e cliEnv) withPiped(on bool) cliEnv { e.piped = on; return e }

// withInPlace returns the environment in which -o names the file standard input comes from.
func (e cliEnv) withInPlace(on bool) cliEnv { e.inPlace = on; return e }

// withStale returns the environment in which every -o file exists before gts runs.
func (e cliEnv) withStale(on bool) cliEnv { e.stale = on; return e }

// withStdin returns the environment with another way of handing over standard input.
func (e cliEnv) withStdin(mode int) cliEnv { e.sin = mode; return e }

func newCliEnv() cliEnv {
	base := filepath.Join(outDir(), "cli-env")
	os.MkdirAll(base, 0o755)
	d, err := os.MkdirTemp(base, "h")
	if err != nil {
		panic(err)
	}
	for _, sub := range []string{"cache", "tmp", "out"} {
		os.MkdirAll(filepath.Join(d, sub), 0o755)
	}
	return cliEnv{dir: d}
}

func (e cliEnv) remove() { os.RemoveAll(e.dir) }

var cliExecs int64
var ptyUnavailable int64 // runs that asked for a terminal on standard input and got a regular file instead

// openPTY opens a pseudo-terminal pair (Linux: /dev/ptmx and /dev/pts/N) without any package outside the standard library.
func openPTY() (master, slave *os.File, err error) {
	master, err = os.OpenFile("/dev/ptmx", os.O_RDWR|syscall.O_NOCTTY, 0)
	if err != nil {
		return nil, nil, err
	}
	var n uint32
	var unlock int32
	if _, _, e := syscall.Syscall(syscall.SYS_IOCTL, master.Fd(), syscall.TIOCGPTN, uintptr(unsafe.Pointer(&n))); e != 0 {
		master.Close()
		return nil, nil, e
	}
	if _, _, e := syscall.Syscall(syscall.SYS_IOCTL, master.Fd(), syscall.TIOCSPTLCK, uintptr(unsafe.Pointer(&unlock))); e != 0 {
		master.Close()
		return nil, nil, e
	}
	slave, err = os.OpenFile(fmt.Sprintf("/dev/pts/%d", n), os.O_RDWR|syscall.O_NOCTTY, 0)
	if err != nil {
		master.Close()
		return nil, nil, err
	}
	return master, slave, nil
}
var cliMu sync.Mutex

// run executes gts with the given arguments; stdin is always a pipe. outfile=true adds "-o <file>" after the
// subcommand and returns that file's content.
func (e cliEnv) run(args []string, stdin []byte, outfile bool, exts ...string) cliResult {
	full := append([]string{}, args...)
	outPath := ""
	stdinPath := ""
	var tty *os.File
	if e.sin == 3 {
		// standard input is a terminal, as in an interactive shell: gts then takes the input file as its last argument
		m, sl, err := openPTY()
		if err != nil {
			cliMu.Lock()
			ptyUnavailable++
			cliMu.Unlock()
			e.sin = 1 // no pseudo-terminal to be had here: hand the file over as standard input instead
		} else {
			tty = sl
			defer m.Close()
			defer sl.Close()
		}
	}
	if e.sin > 0 {
		os.MkdirAll(filepath.Join(e.dir, "in"), 0o755)
		stdinPath = filepath.Join(e.dir, "in", fmt.Sprintf("stdin%d.gb", time.Now().UnixNano()))
	}
	if outfile {
		ext := ".out"
		if len(exts) > 0 && exts[0] != "" {
			ext = exts[0] // an extension gts derives the output format from (.fasta, .gb, .genbank)
		}
		outPath = filepath.Join(e.dir, "out", fmt.Sprintf("o%d%s", time.Now().UnixNano(), ext))
		if e.inPlace && e.sin == 1 {
			outPath = stdinPath
		}
		// the output file already exists and is longer than anything gts will write: what is left of it afterwards is
		// not part of the output
		if e.stale && outPath != stdinPath {
			os.WriteFile(outPath, bytes.Repeat([]byte("stale content of an earlier output file\n"), 6000), 0o644)
		}
		full = append([]string{full[0], "-o", outPath}, full[1:]...)
	}
	if tty != nil {
		full = append(full, stdinPath)
	}
	ctx, cancel := context.WithTimeout(context.Background(), 60*time.Second)
	defer cancel()
	cmd := exec.CommandContext(ctx, gtsBin(), full...)
	cmd.Env = []string{"HOME=" + e.dir, "XDG_CACHE_HOME=" + filepath.Join(e.dir, "cache"), "TMPDIR=" + filepath.Join(e.dir, "tmp"), "PATH=/usr/bin:/bin", "LANG=C"}
	switch e.envMode {
	case 1: // the cache directory follows from HOME alone
		cmd.Env = []string{"HOME=" + e.dir, "TMPDIR=" + filepath.Join(e.dir, "tmp"), "PATH=/usr/bin:/bin", "LANG=C"}
	case 2: // no usable place for a cache at all
		cmd.Env = []string{"HOME=" + filepath.Join(e.dir, "no-such-dir", "deeper"), "XDG_CACHE_HOME=/dev/null/cache", "TMPDIR=" + filepath.Join(e.dir, "tmp"), "PATH=/usr/bin:/bin", "LANG=C.UTF-8"}
	case 4: // a cache directory that can be made but is so deep that no entry file fits in a path (ENAMETOOLONG)
		deep := e.dir
		for len(deep)+len("/gts-cache/")+40 <= 4095 {
			n := minInt(200, 4095-len("/gts-cache/")-30-len(deep)-1)
			if n <= 0 {
				break
			}
			deep += "/" + strings.Repeat("d", n)
		}
		cmd.Env = []string{"HOME=" + e.dir, "XDG_CACHE_HOME=" + deep, "TMPDIR=" + filepath.Join(e.dir, "tmp"), "PATH=/usr/bin:/bin", "LANG=C"}
	case 5: // a usable cache directory, but no place for temporary files (TMPDIR names something that is not a directory)
		cmd.Env = []string{"HOME=" + e.dir, "XDG_CACHE_HOME=" + filepath.Join(e.dir, "cache"), "TMPDIR=/dev/null/tmp", "PATH=/usr/bin:/bin", "LANG=C"}
	case 3: // a cache directory given relative to the working directory, another locale
		cmd.Env = []string{"HOME=" + e.dir, "XDG_CACHE_HOME=cache-rel", "TMPDIR=" + filepath.Join(e.dir, "tmp"), "PATH=/usr/bin:/bin", "LANG=de_DE.UTF-8", "LC_ALL=de_DE.UTF-8", "TZ=Pacific/Kiritimati"}
	}
	if d := os.Getenv("GOCOVERDIR"); d != "" {
		cmd.Env = append(cmd.Env, "GOCOVERDIR="+d) // coverage of a cover-built gts binary (development aid, not used by the checks)
	}
	cmd.Dir = e.dir
	if e.piped {
		for i, a := range cmd.Args {
			if i == 0 || !strings.HasPrefix(a, poolDir+string(os.PathSeparator)) {
				continue
			}
			data, err := os.ReadFile(a)
			if err != nil {
				continue
			}
			r, w, err := os.Pipe()
			if err != nil {
				panic(err)
			}
			cmd.ExtraFiles = append(cmd.ExtraFiles, r)
			cmd.Args[i] = fmt.Sprintf("/dev/fd/%d", 2+len(cmd.ExtraFiles))
			go func() { w.Write(data); w.Close() }()
			defer r.Close()
		}
	}
	cmd.Stdin = bytes.NewReader(stdin)
	if e.sin > 0 {
		prefix := ""
		if e.sin == 2 {
			prefix = "a line the caller has read from the same descriptor before it started gts\n"
		}
		path := stdinPath
		if err := os.WriteFile(path, append([]byte(prefix), stdin...), 0o644); err != nil {
			panic(err)
		}
		f, err := os.Open(path)
		if err != nil {
			panic(err)
		}
		defer os.Remove(path)
		defer f.Close()
		if _, err := f.Seek(int64(len(prefix)), 0); err != nil {
			panic(err)
		}
		cmd.Stdin = f
		if tty != nil {
			cmd.Stdin = tty
		}
	}
	var so, se bytes.Buffer
	cmd.Stdout, cmd.Stderr = &so, &se
	err := cmd.Run()
	cliMu.Lock()
	cliExecs++
	cliMu.Unlock()
	res := cliResult{Out: so.Bytes(), Stderr: se.String()}
	if ctx.Err() != nil {
		panic(fmt.Sprintf("harness: gts %v did not finish within 60 s", full))
	}
	if err != nil {
		if ee, ok := err.(*exec.ExitError); ok {
			res.Exit = ee.ExitCode()
		} else {
			panic(fmt.Sprintf("harness: cannot run gts: %v", err))
		}
	}
	if outfile {
		data, rerr := os.ReadFile(outPath)
		if rerr != nil {
			data = nil
		}
		res.Out = data
		os.Remove(outPath)
	}
	return res
}

// ---- input pool ----------------------------------------------------------------------------------

var (
	poolOnce sync.Once
	poolDir  string
	pool     = map[string][]byte{}
)

func smallRecord(name string, circ bool, n int, feats []Feat) []byte {
	rec := gbRec{Locus: name, Mol: "DNA", Circ: circ, Div: "SYN", Date: [3]int{2020, 5, 17}, Def: "small test record " + name, Acc: name, Ver: name + ".1",
		Keywords: []string{"k"}, Species: "synthetic construct", Organism: "synthetic construct", Taxon: []string{"other sequences", "artificial sequences"},
		Refs: []gbRef{{Num: 1, Info: fmt.Sprintf("(bases 1 to %d)", n), Title: "t"}}, Feats: feats, ResLen: n}
	gb := rec.build()
	// residues restricted to letters so that search/complement are meaningful
	p := make([]byte, n)
	for i := range p {
		p[i] = "acgtacggtcatgcatgacctgatcgatcgtagcta"[(i*7+i/5)%35]
	}
	return []byte(gb.WithBytes(p).(seqio.GenBank).String())
}

func initPool() {
	poolOnce.Do(func() {
		poolDir = filepath.Join(outDir(), fmt.Sprintf("cli-pool-%d", os.Getpid()))
		os.MkdirAll(poolDir, 0o755)
		q := func(name string) [][]string { return [][]string{{"label", name}} }
		small := smallRecord("SMALLA", true, 60, []Feat{
			{Key: "source", Loc: lrg(0, 60), Quals: [][]string{{"organism", "synthetic construct"}, {"mol_type", "other DNA"}}},
			{Key: "gene", Loc: lrg(4, 20), Quals: [][]string{{"gene", "alpha"}, {"label", "g1"}}},
			{Key: "CDS", Loc: ljn(lrg(4, 10), lrg(14, 20)), Quals: [][]string{{"gene", "alpha"}, {"product", "alpha protein"}, {"codon_start", "1"}, {"label", "c1"}}},
			{Key: "gene", Loc: lco(lrg(30, 48)), Quals: [][]string{{"gene", "beta"}, {"label", "g2"}}},
			{Key: "CDS", Loc: lco(lrg(30, 48)), Quals: [][]string{{"gene", "beta"}, {"product", "beta protein"}, {"label", "c2"}}},
			{Key: "misc_feature", Loc: lrg(16, 34), Quals: append(q("m1"), []string{"note", "overlaps both", "a second note"})},
			{Key: "variation", Loc: lpt(25), Quals: append(q("v1"), []string{"note", ""})},
		})
		small2 := smallRecord("SMALLB", false, 45, []Feat{
			{Key: "source", Loc: lrg(0, 45), Quals: [][]string{{"organism", "synthetic construct"}}},
			{Key: "gene", Loc: lprg(0, 12, true, false), Quals: [][]string{{"gene", "gamma"}, {"label", "g3"}}},
			{Key: "misc_feature", Loc: lrg(40, 45), Quals: q("m2")},
		})
		guest := smallRecord("GUEST", false, 9, []Feat{{Key: "misc_feature", Loc: lrg(0, 9), Quals: [][]string{{"note", "guest"}, {"label", "gg"}}}})
		guest2 := smallRecord("GUESTB", false, 4, []Feat{{Key: "gene", Loc: lrg(1, 3), Quals: [][]string{{"gene", "inner"}}}})
		// same residues as guest.gb / host.gb but a different annotation (a key that hashes residues only misses this)
		guest3 := smallRecord("GUEST", false, 9, []Feat{{Key: "misc_feature", Loc: lrg(0, 9), Quals: [][]string{{"note", "guest"}, {"label", "gg"}}}, {Key: "variation", Loc: lpt(4), Quals: [][]string{{"note", "only in guest3"}}}})
		host3 := smallRecord("SMALLB", false, 45, []Feat{
			{Key: "source", Loc: lrg(0, 45), Quals: [][]string{{"organism", "synthetic construct"}}},
			{Key: "gene", Loc: lprg(0, 12, true, false), Quals: [][]string{{"gene", "gamma"}, {"label", "g3"}}},
			{Key: "misc_feature", Loc: lrg(40, 45), Quals: q("m2")},
			{Key: "misc_feature", Loc: lrg(20, 25), Quals: q("only-in-host3")},
		})
		part, phix, pbat := corpusFile("NC_001422_part.gb"), corpusFile("NC_001422.gb"), corpusFile("pBAT5.txt")
		pool["small"] = small
		pool["small2"] = small2
		pool["two"] = append(append([]byte{}, small...), small2...)
		pool["part"] = part
		pool["phix"] = phix
		pool["pbat"] = pbat
		pool["fa"] = corpusFile("NC_001422.fasta")
		pool["smallfa"] = []byte(">s1 first\nacgtacggtcatgcatgacc\n>s2 second\nttgacctgatcg\n")
		pool["bad"] = append(append([]byte{}, small...), small2[:len(small2)*2/3]...)
		pool["garbage"] = []byte("this is not a sequence file\n")
		pool["empty"] = []byte{}
		// inputs larger than 64 KiB (commands that spool or buffer their standard input switch strategy with size): the
		// same three-record stream twice, differing in one residue of the last record, and a large invalid stream
		big := bytes.Repeat(phix, 3)
		big2 := append([]byte{}, big...)
		if k := bytes.LastIndex(big2, []byte("gccgccgtga")); k >= 0 {
			big2[k] = 't'
		} else {
			big2[len(big2)-20] = 't'
		}
		pool["big"], pool["big2"] = big, big2
		pool["bigbad"] = append(append([]byte{}, big...), small2[:len(small2)*2/3]...)
		for name, data := range map[string][]byte{
			"guest.gb": guest, "guest2.gb": guest2, "guest3.gb": guest3, "guest.fasta": []byte(">g\nggttcc\n"), "guest2.fasta": []byte(">other description\nggttcc\n"),
			"host.gb": small2, "host2.gb": small, "host3.gb": host3,
			"table1.txt":  []byte("misc_feature    3..8\n                /note=\"added one\"\n"),
			"table2.txt":  []byte("misc_feature    3..8\n                /note=\"added two\"\nvariation       12\n"),
			"query.fasta": []byte(">q\ncctta\n"), "query2.fasta": []byte(">q\ncgcac\n"),
			// files that hold, byte for byte, the text of a literal argument (and so no sequence at all)
			"litguest.txt": []byte("@ggttcc"), "litquery.txt": []byte("@cctta"),
		} {
			if err := os.WriteFile(filepath.Join(poolDir, name), data, 0o644); err != nil {
				panic(err)
			}
			poolFiles[name] = data
		}
	})
}

// expandArgs replaces {name} by the path of the pool file of that name.
// poolFiles: the original content of every secondary file of the pool; secPartner: the file whose content takes its
// place when a step asks for the alternative content at the same path.
var (
	poolFiles  = map[string][]byte{}
	secPartner = map[string]string{"query.fasta": "query2.fasta", "query2.fasta": "query.fasta", "guest.gb": "guest2.gb", "guest2.gb": "guest.gb", "guest3.gb": "guest.gb",
		"guest.fasta": "query.fasta", "guest2.fasta": "query2.fasta", "host.gb": "host2.gb", "host2.gb": "host.gb", "host3.gb": "host.gb", "table1.txt": "table2.txt", "table2.txt": "table1.txt",
		"litguest.txt": "guest.fasta", "litquery.txt": "query.fasta"}
)

// setSecondary writes, for every {file} among args, either its own content or (alt) its partner's content to the
// file's path: the same path then holds other content, as when a user edits a query or guest file between two runs.
func setSecondary(args []string, alt bool) {
	initPool()
	for _, a := range args {
		if !(strings.HasPrefix(a, "{") && strings.HasSuffix(a, "}")) {
			continue
		}
		name := a[1 : len(a)-1]
		data := poolFiles[name]
		if alt {
			data = poolFiles[secPartner[name]]
		}
		if data == nil {
			panic("harness: no content for pool file " + name)
		}
		if err := os.WriteFile(filepath.Join(poolDir, name), data, 0o644); err != nil {
			panic(err)
		}
	}
}

func expandArgs(args []string) []string {
	initPool()
	out := make([]string, len(args))
	for i, a := range args {
		if strings.HasPrefix(a, "{") && strings.HasSuffix(a, "}") {
			a = filepath.Join(poolDir, a[1:len(a)-1])
		}
		out[i] = a
	}
	return out
}

var _ = gts.Len
