package harness

// C14 — Caching is transparent: cached runs equal uncached runs (process-level, stateful).

import (
	"bytes"
	"fmt"
	"strings"
	"sync"
	"testing"

	"pgregory.net/rapid"
)

type c14Step struct {
	Args []string `json:"args"` // subcommand, options, positionals ({name} = pool file)
	In   string   `json:"in"`   // pool id piped to stdin
	Out  bool     `json:"out,omitempty"`
	Alt  bool     `json:"alt,omitempty"`  // the secondary files named in Args hold their partner's content (same path, other content)
	Ext  string   `json:"ext,omitempty"`  // with Out: extension of the -o file (gts derives the output format from .fasta/.gb/.genbank)
	Sin  int      `json:"sin,omitempty"`  // standard input of the cached run: 0 a pipe, 1 a regular file, 2 a regular file positioned behind a line the caller consumed
	Old  bool     `json:"old,omitempty"`  // with Out: the -o file exists before the cached run (and is longer than the output)
	Inp  bool     `json:"inp,omitempty"`  // with Out and Sin == 1: -o names the file standard input is redirected from
	Pipe bool     `json:"pipe,omitempty"` // the secondary files named in Args arrive through pipes (/dev/fd/N) in the cached run
	Aux  bool     `json:"aux,omitempty"`  // another invocation sharing the cache directory (gts cache list / purge): run, not compared
}

type c14Case struct {
	Env   int       `json:"env,omitempty"` // environment of all cached runs: 0 XDG_CACHE_HOME, 1 HOME only, 2 no usable cache directory, 3 relative cache path, other locale and time zone, 4 a cache directory so deep that no entry file name fits, 5 a usable cache directory but TMPDIR names no directory
	Steps []c14Step `json:"steps"`
}

func (s c14Step) inPlace() bool { return s.Inp && s.Out && s.Sin == 1 }

func (s c14Step) key() string {
	return fmt.Sprintf("%q|%s|%v|%s|%v|%v|%v", s.Args, s.In, s.Out, s.Ext, s.Alt, s.Out && s.Old, s.inPlace())
}

var (
	baselineMu sync.Mutex
	baseline   = map[string]cliResult{}
)

// uncached runs the step with --no-cache in a fresh environment (memoised: gts is deterministic).
func uncached(s c14Step) cliResult {
	baselineMu.Lock()
	r, ok := baseline[s.key()]
	baselineMu.Unlock()
	if ok {
		return r
	}
	env := newCliEnv()
	defer env.remove()
	args := expandArgs(s.Args)
	args = append([]string{args[0], "--no-cache"}, args[1:]...)
	setSecondary(s.Args, s.Alt)
	if s.inPlace() {
		env = env.withStdin(1).withInPlace(true)
	}
	r = env.withStale(s.Old).run(args, pool[s.In], s.Out, s.Ext)
	baselineMu.Lock()
	baseline[s.key()] = r
	baselineMu.Unlock()
	return r
}

func c14Check(c c14Case) *Violation {
	initPool()
	env := newCliEnv().withEnv(c.Env)
	defer env.remove()
	for i, s := range c.Steps {
		if s.Aux {
			env.run(expandArgs(s.Args), nil, false)
			continue
		}
		if _, ok := pool[s.In]; !ok {
			panic("harness: unknown pool input " + s.In)
		}
		want := uncached(s)
		setSecondary(s.Args, s.Alt)
		got := env.withStdin(s.Sin).withStale(s.Old).withInPlace(s.inPlace()).withPiped(s.Pipe).run(expandArgs(s.Args), pool[s.In], s.Out, s.Ext)
		hist := []string{}
		for _, p := range c.Steps[:i+1] {
			hist = append(hist, fmt.Sprintf("[gts %q < %s out=%v%s alt=%v stdin=%s]", p.Args, p.In, p.Out, p.Ext, p.Alt, []string{"pipe", "file", "file-at-offset", "terminal+path"}[mod(p.Sin, 4)]))
		}
		if s.Out && s.Old && want.Exit == 0 && !s.inPlace() {
			// what the file held before is no part of the output of a run that succeeds
			fresh := s
			fresh.Old = false
			if w2 := uncached(fresh); w2.Exit == 0 && !bytes.Equal(w2.Out, want.Out) {
				d := firstDiff(string(want.Out), string(w2.Out))
				return viol("output-file", "[gts %q < %s -o file%s]: written over an existing longer file the output has %d bytes, written to a new file %d bytes (first difference at byte %d: %q)", s.Args, s.In, s.Ext, len(want.Out), len(w2.Out), d, clipStr(string(want.Out[minInt(d, len(want.Out)):]), 80))
			}
		}
		if s.Out && s.Ext != "" && want.Exit == 0 && !s.inPlace() {
			// the format of an -o file follows from its extension - the last suffix of the name - exactly as if it had
			// been asked for with -F
			hasF := false
			for _, a := range s.Args {
				if a == "-F" || a == "--format" {
					hasF = true
				}
			}
			name := map[string]string{".fasta": "fasta", ".gb": "genbank", ".genbank": "genbank"}[s.Ext[strings.LastIndexByte(s.Ext, '.'):]]
			// only for the commands whose -F is the output format (summary's -F and query's options mean other things)
			takesFormat := false
			for _, v := range c14Variants[s.Args[0]] {
				if len(v) >= 2 && v[0] == "-F" && v[1] == "fasta" {
					takesFormat = true
				}
			}
			if !hasF && takesFormat {
				alt := c14Step{Args: append([]string{}, s.Args...), In: s.In, Alt: s.Alt}
				if name != "" {
					alt.Args = append([]string{s.Args[0], "-F", name}, s.Args[1:]...)
				}
				if w3 := uncached(alt); w3.Exit == 0 && !bytes.Equal(w3.Out, want.Out) {
					d := firstDiff(string(want.Out), string(w3.Out))
					return viol("output-format", "[gts %q < %s]: -o file%s holds %d bytes, the same run to standard output with %q holds %d (first difference at byte %d: %q vs %q)", s.Args, s.In, s.Ext, len(want.Out), alt.Args[1:minInt(3, len(alt.Args))], len(w3.Out), d, clipStr(string(want.Out[minInt(d, len(want.Out)):]), 60), clipStr(string(w3.Out[minInt(d, len(w3.Out)):]), 60))
				}
			}
		}
		if got.Exit != want.Exit {
			return viol("exit-status", "after %s: cached run exits %d, --no-cache exits %d (stderr %q vs %q)", strings.Join(hist, " ; "), got.Exit, want.Exit, clipStr(got.Stderr, 200), clipStr(want.Stderr, 200))
		}
		if !bytes.Equal(got.Out, want.Out) {
			d := firstDiff(string(got.Out), string(want.Out))
			return viol("output", "after %s: cached output (%d bytes) differs from --no-cache output (%d bytes) at byte %d: %q vs %q", strings.Join(hist, " ; "),
				len(got.Out), len(want.Out), d, clipStr(string(got.Out[minInt(d, len(got.Out)):]), 120), clipStr(string(want.Out[minInt(d, len(want.Out)):]), 120))
		}
	}
	return nil
}

func c14Classify(c c14Case) (bool, []string) {
	labels := []string{fmt.Sprintf("steps=%d", len(c.Steps)), fmt.Sprintf("env=%d", c.Env)}
	nt := false
	for i, s := range c.Steps {
		if s.Aux {
			labels = append(labels, "aux:"+strings.Join(s.Args, "-"))
			continue
		}
		labels = append(labels, "cmd:"+s.Args[0])
		if s.Out {
			labels = append(labels, "-o"+s.Ext)
		}
		if s.Out && s.Old {
			labels = append(labels, "-o-over-existing-file")
		}
		if s.Alt {
			labels = append(labels, "secondary-file-rewritten")
		}
		if s.inPlace() {
			labels = append(labels, "-o-is-stdin-file")
		}
		if s.Pipe {
			labels = append(labels, "secondary-through-pipe")
		}
		if s.Sin > 0 {
			labels = append(labels, "stdin:"+[]string{"pipe", "file", "file-at-offset", "terminal+path"}[mod(s.Sin, 4)])
		}
		if s.In == "bad" || s.In == "garbage" || s.In == "empty" || s.In == "bigbad" {
			labels = append(labels, "invalid-input")
		}
		for _, p := range c.Steps[:i] {
			if p.Aux || p.Args[0] != s.Args[0] {
				continue
			}
			switch {
			case p.key() == s.key():
				labels = append(labels, "exact-repeat")
				nt = true
			case p.In == s.In:
				labels = append(labels, "same-input-other-options")
				nt = true
			case fmt.Sprintf("%q", p.Args) == fmt.Sprintf("%q", s.Args):
				labels = append(labels, "same-options-other-input")
				nt = true
			}
		}
	}
	return nt, labels
}

func c14KF(c c14Case, v *Violation) []string { return nil }

var c14Prop = &Prop[c14Case]{ID: "C14", Check: c14Check, Classify: c14Classify, KF: c14KF}

func init() { registerReplay(c14Prop) }

// c14Variants: per cached subcommand, argument vectors that differ in exactly the options / secondary inputs
// that must be part of the cache key. Options come first, then positionals.
var c14Variants = map[string][][]string{
	"annotate":   {{"{table1.txt}"}, {"{table2.txt}"}, {"-F", "fasta", "{table1.txt}"}, {"-F", "genbank", "{table1.txt}"}},
	"clear":      {{}, {"-F", "fasta"}, {"-F", "genbank"}},
	"complement": {{}, {"-F", "fasta"}, {"-F", "genbank"}},
	"reverse":    {{}, {"-F", "fasta"}, {"-F", "genbank"}},
	"repair":     {{}, {"-F", "fasta"}},
	"define":     {{"gene", "join(3..5,8..12)"}, {"gene", "order(3..5,8..12)"}, {"gene", "6"}, {"gene", "5^6"}, {"gene", "complement(3..12)"}, {"gene", "complement(join(3..5,8..12))"}, {"gene", "<3..12"}, {"gene", "3..12"}, {"gene", "4..12"}, {"CDS", "3..12"}, {"-q", "note=x", "gene", "3..12"}, {"-q", "note=y", "gene", "3..12"}, {"-q", "note=x", "-q", "gene=z", "gene", "3..12"}, {"-q", "gene=z", "-q", "note=x", "gene", "3..12"}, {"-q", "note=x y", "gene", "3..12"}, {"-q", "note=x", "-q", "y", "gene", "3..12"}, {"-F", "fasta", "gene", "3..12"}},
	"delete":     {{"3..22"}, {"-e", "3..22"}, {"3..12"}, {"3..13"}, {"-e", "3..12"}, {"gene"}, {"-e", "gene"}, {"CDS@^..^+3"}, {"-F", "fasta", "3..12"}},
	"extract":    {{"gene"}, {"-v", "gene"}, {"CDS"}, {"gene", "CDS"}, {"CDS", "gene"}, {"gene CDS"}, {"-v", "gene", "CDS"}, {"-v", "gene", "misc_feature"}, {"gene", "gene"}, {"misc_feature", "CDS", "gene"}, {"gene", "CDS", "misc_feature"}, {}, {"-v"}, {"-F", "fasta", "gene"}, {"3..12"}, {"-v", "3..12"}},
	"infix":      {{"10", "{host.gb}"}, {"11", "{host.gb}"}, {"10", "{host2.gb}"}, {"10", "{host3.gb}"}, {"-e", "10", "{host.gb}"}, {"-F", "fasta", "10", "{host.gb}"}},
	"insert":     {{"10", "{guest.gb}"}, {"11", "{guest.gb}"}, {"10", "{guest2.gb}"}, {"10", "{guest3.gb}"}, {"10", "{guest.fasta}"}, {"10", "{guest2.fasta}"}, {"10", "@ggttcc"}, {"10", "@ggttca"}, {"10", "{litguest.txt}"}, {"-e", "10", "{guest.gb}"}, {"-F", "fasta", "10", "{guest.gb}"}, {"gene", "{guest.fasta}"}},
	"join":       {{}, {"-c"}, {"-F", "fasta"}},
	"pick":       {{"1"}, {"2"}, {"1,2"}, {"2,1"}, {"1-2"}, {"-f", "1"}, {"-f", "2"}, {"-F", "fasta", "1"}},
	"query":      {{}, {"-n", "gene"}, {"-n", "product"}, {"-n", "gene", "-n", "product"}, {"-n", "product", "-n", "gene"}, {"-n", "gene product"}, {"-d", ","}, {"-d", ", "}, {"-t", "; "}, {"-t", ";"}, {"-H"}, {"--source"}, {"-I"}, {"-K"}, {"-L"}, {"--empty"}, {"--empty", "-n", "product"}},
	"rotate":     {{"10"}, {"11"}, {"gene"}, {"^+5"}, {"-F", "fasta", "10"}},
	"search":     {{"@cctaa"}, {"--no-complement", "@cctaa"}, {"@ccyta"}, {"-e", "@ccyta"}, {"@cctta"}, {"@cgcac"}, {"{query.fasta}"}, {"{query2.fasta}"}, {"{litquery.txt}"}, {"-k", "primer_bind", "@cctta"}, {"-q", "note=hit", "@cctta"}, {"-q", "note=hit", "-q", "label=x", "@cctta"}, {"-q", "label=x", "-q", "note=hit", "@cctta"}, {"-q", "note=hit label=x", "@cctta"}, {"-q", "note=hit", "-q", "label=x", "-k", "misc_feature", "@cctta"}, {"-e", "@cctta"}, {"--no-complement", "@cctta"}, {"-F", "fasta", "@cctta"}},
	"select":     {{"gene"}, {"CDS"}, {"gene", "CDS"}, {"CDS", "gene"}, {"gene CDS"}, {"[gene CDS]"}, {"-v", "gene"}, {"-v", "gene", "CDS"}, {"-s", "forward", "gene"}, {"-s", "reverse", "gene"}, {"/gene=alpha"}, {"-F", "fasta", "gene"}},
	"sort":       {{}, {"-r"}, {"-F", "fasta"}},
	"split":      {{"10"}, {"11"}, {"gene"}, {"CDS@^"}, {"-F", "fasta", "10"}},
	"summary":    {{}, {"-F"}, {"-Q"}, {"-F", "-Q"}},
}

var c14Commands = func() []string {
	out := []string{}
	for k := range c14Variants {
		out = append(out, k)
	}
	for i := range out {
		for j := i + 1; j < len(out); j++ {
			if out[j] < out[i] {
				out[i], out[j] = out[j], out[i]
			}
		}
	}
	return out
}()

var c14Inputs = []string{"small", "small2", "two", "part", "pbat", "smallfa", "bad", "garbage", "big", "big2", "bigbad"}

func c14Gen(t *rapid.T) c14Case {
	n := rapid.IntRange(2, 4).Draw(t, "nsteps")
	cmd := rapid.SampledFrom(c14Commands).Draw(t, "cmd")
	vars := c14Variants[cmd]
	in := rapid.SampledFrom(c14Inputs).Draw(t, "in")
	var c c14Case
	c.Env = rapid.SampledFrom([]int{0, 0, 0, 1, 2, 3, 4, 5}).Draw(t, "env")
	for i := 0; i < n; i++ {
		// near-collisions: mostly the same command and input, one thing changed
		switch rapid.IntRange(0, 9).Draw(t, "drift") {
		case 0:
			cmd = rapid.SampledFrom(c14Commands).Draw(t, "cmd2")
			vars = c14Variants[cmd]
		case 1, 2:
			in = rapid.SampledFrom(c14Inputs).Draw(t, "in2")
		}
		if i > 0 && rapid.IntRange(0, 7).Draw(t, "aux") == 0 {
			c.Steps = append(c.Steps, c14Step{Args: []string{"cache", rapid.SampledFrom([]string{"purge", "list", "path"}).Draw(t, "auxcmd")}, Aux: true})
		}
		v := vars[rapid.IntRange(0, len(vars)-1).Draw(t, "variant")]
		st := c14Step{Args: append([]string{cmd}, v...), In: in, Out: rapid.IntRange(0, 3).Draw(t, "out") == 0}
		st.Alt = rapid.IntRange(0, 3).Draw(t, "alt") == 0
		st.Sin = rapid.SampledFrom([]int{0, 0, 0, 1, 2, 3}).Draw(t, "sin")
		st.Inp = rapid.IntRange(0, 2).Draw(t, "inp") == 0
		st.Pipe = rapid.IntRange(0, 3).Draw(t, "pipe") == 0
		if st.Out {
			st.Old = rapid.Bool().Draw(t, "old")
			st.Ext = rapid.SampledFrom([]string{"", "", ".fasta", ".gb", ".genbank", ".txt", ".gb.fasta", ".fasta.gb", ".genbank.fasta", ".fastq.gb", ".3.fasta", ".fasta.txt", ".embl.genbank"}).Draw(t, "ext")
		}
		c.Steps = append(c.Steps, st)
	}
	return c
}

func TestC14(t *testing.T) {
	st := newStats("C14")
	defer st.flush()
	initPool()
	// exhaustive two-step histories: for every command, every ordered pair of its variants (incl. the exact repeat)
	// on a valid input, the repeat after a failing input, and the same variant on two different inputs.
	e := enumPart(t, c14Prop, st, "two-step-lattice")
	for _, cmd := range c14Commands {
		vars := c14Variants[cmd]
		inputs := []string{"small", "two"}
		if thorough() {
			inputs = []string{"small", "two", "pbat", "smallfa"}
		}
		for _, in := range inputs {
			for _, a := range vars {
				for _, b := range vars {
					c := c14Case{Steps: []c14Step{{Args: append([]string{cmd}, a...), In: in}, {Args: append([]string{cmd}, b...), In: in}}}
					if !e.try(c) {
						return
					}
				}
			}
		}
		for _, a := range vars {
			sa := func(in string, out bool) c14Step { return c14Step{Args: append([]string{cmd}, a...), In: in, Out: out} }
			spipe := func(in string, alt bool) c14Step {
				return c14Step{Args: append([]string{cmd}, a...), In: in, Alt: alt, Pipe: true}
			}
			sinp := func(in string) c14Step {
				return c14Step{Args: append([]string{cmd}, a...), In: in, Out: true, Sin: 1, Inp: true, Ext: ".gb"}
			}
			sold := func(in string) c14Step {
				return c14Step{Args: append([]string{cmd}, a...), In: in, Out: true, Old: true}
			}
			ssin := func(in string, sin int) c14Step {
				return c14Step{Args: append([]string{cmd}, a...), In: in, Sin: sin}
			}
			salt := func(in string) c14Step { return c14Step{Args: append([]string{cmd}, a...), In: in, Alt: true} }
			se := func(in, ext string) c14Step {
				return c14Step{Args: append([]string{cmd}, a...), In: in, Out: true, Ext: ext}
			}
			for _, c := range []c14Case{
				{Steps: []c14Step{sa("bad", false), sa("bad", false)}},
				{Steps: []c14Step{sa("garbage", false), sa("garbage", false), sa("small", false)}},
				{Steps: []c14Step{sa("small", false), sa("small2", false), sa("small", false)}},
				{Steps: []c14Step{sa("small", true), sa("small", false), sa("small", true)}},
				{Steps: []c14Step{sa("small", false), sa("small", true)}},
				{Steps: []c14Step{sa("small", false), {Args: []string{"cache", "purge"}, Aux: true}, sa("small", false), sa("small", false)}},
				{Steps: []c14Step{sa("small", false), {Args: []string{"cache", "list"}, Aux: true}, sa("small", false)}},
				{Steps: []c14Step{sa("big", false), sa("big2", false), sa("bigbad", false), sa("big", false)}},
				{Steps: []c14Step{sa("small", false), salt("small"), sa("small", false), salt("small")}},
				{Steps: []c14Step{sa("small", false), se("small", ".fasta"), sa("small", false), se("small", ".gb")}},
				{Steps: []c14Step{se("smallfa", ".gb"), sa("smallfa", false), se("smallfa", ".fasta"), se("smallfa", ".genbank")}},
				{Steps: []c14Step{se("small", ".gb.fasta"), se("small", ".fasta.gb"), se("small", ".3.fasta"), se("small", ".fasta.txt")}},
				{Steps: []c14Step{ssin("small", 2), sa("small", false), ssin("two", 1), ssin("small", 1)}},
				{Steps: []c14Step{sold("small"), sold("small"), sa("small", false), sold("small")}},
				{Steps: []c14Step{sinp("small"), sinp("two"), sa("two", false), sinp("two")}},
				{Steps: []c14Step{spipe("small", false), spipe("small", true), spipe("small", false), sa("small", false)}},
				{Steps: []c14Step{sa("two", false), ssin("two", 2), ssin("big", 2), sa("big", false)}},
				// standard input is a terminal and the input a file named as the last argument (the interactive use)
				{Steps: []c14Step{ssin("small", 3), sa("small", false), ssin("small", 3), ssin("two", 3)}},
				{Steps: []c14Step{sa("two", false), ssin("two", 3), ssin("bad", 3), ssin("bad", 3)}},
			} {
				if !e.try(c) {
					return
				}
			}
			// the same repeat under other environments (cache directory from HOME alone, none usable, relative path
			// with another locale and time zone)
			for envMode := 1; envMode <= 5; envMode++ {
				if !e.try(c14Case{Env: envMode, Steps: []c14Step{sa("small", false), sa("small", false), sa("two", true), sa("small", false)}}) {
					return
				}
			}
		}
	}
	e.done(true)
	// how discriminating the variant tables are: pairs of variants of one command whose uncached outputs coincide on
	// the main input cannot reveal a key that ignores the differing option
	if shard() == 0 {
		for _, cmd := range c14Commands {
			vars := c14Variants[cmd]
			var same []string
			for i, a := range vars {
				for _, b := range vars[i+1:] {
					ra := uncached(c14Step{Args: append([]string{cmd}, a...), In: "small"})
					rb := uncached(c14Step{Args: append([]string{cmd}, b...), In: "small"})
					if bytes.Equal(ra.Out, rb.Out) && ra.Exit == rb.Exit {
						same = append(same, fmt.Sprintf("%q=%q", a, b))
					}
				}
			}
			if len(same) > 0 {
				st.note("variants of %s with equal uncached output on input small: %s", cmd, strings.Join(same, " "))
			}
		}
	}
	n := pick(160, 6000) / shards()
	rapidPart(t, c14Prop, st, "rapid-histories", maxInt(n, 10), c14Gen)
	st.note("%d gts executions in this shard", cliExecs)
}
