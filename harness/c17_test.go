package harness

// C17 — FASTA output reads back identically; conversion to FASTA keeps residues.

import (
	"bytes"
	"fmt"
	"io"
	"strings"
	"testing"
	"unicode/utf8"

	"github.com/go-gts/gts"
	"github.com/go-gts/gts/seqio"
	"pgregory.net/rapid"
)

type c17Rec struct {
	Desc string `json:"desc"`
	Raw  []byte `json:"raw,omitempty"` // the description when it is not valid UTF-8 (JSON cannot hold it as a string)
	Len  int    `json:"len"`
	Seed int    `json:"seed"` // residue i is alphabet[(seed + i*step) % len]
	Step int    `json:"step"`
}

type c17Case struct {
	Mode   string   `json:"mode"` // roundtrip, genbank
	Recs   []c17Rec `json:"recs,omitempty"`
	CRLF   bool     `json:"crlf,omitempty"`
	Deliv  int      `json:"deliv,omitempty"`  // roundtrip: how the reader hands the bytes over (deliveryNames)
	Shared bool     `json:"shared,omitempty"` // roundtrip: the residues of all records are windows of one buffer (overlapping by Len/2, spare capacity behind each)
	Fail   int      `json:"fail,omitempty"`   // roundtrip: before anything else records are written to a writer that takes only this many bytes and then fails
	// genbank mode
	Version string `json:"version,omitempty"`
	Def     string `json:"definition,omitempty"`
	GLen    int    `json:"glen,omitempty"`
	Slice   []int  `json:"slice,omitempty"` // [s,e) forward window or nil
	Input   []byte `json:"input,omitempty"` // fuzz mode: raw bytes offered to the reader
}

// fastaAlphabet: printable residues 33..126 without '>'.
var fastaAlphabet = func() []byte {
	var out []byte
	for c := byte(33); c <= 126; c++ {
		if c != '>' {
			out = append(out, c)
		}
	}
	return out
}()

func (r c17Rec) residues() []byte {
	p := make([]byte, r.Len)
	step := r.Step
	if step <= 0 {
		step = 1
	}
	for i := range p {
		p[i] = fastaAlphabet[(r.Seed+i*step)%len(fastaAlphabet)]
	}
	return p
}

// limitedWriter accepts left bytes and fails from then on (a short write with an error, as a full disk gives).
type limitedWriter struct{ left int }

func (w *limitedWriter) Write(p []byte) (int, error) {
	if len(p) <= w.left {
		w.left -= len(p)
		return len(p), nil
	}
	n := w.left
	w.left = 0
	return n, fmt.Errorf("no space left on device")
}

type fastaRead struct {
	descs []string
	datas [][]byte
	err   string
	panic *PanicInfo
}

func readAll(text string, how ...int) fastaRead {
	var r fastaRead
	r.panic = guard(func() {
		var src io.Reader = strings.NewReader(text)
		if len(how) > 0 && how[0] != 0 {
			src = deliver([]byte(text), how[0])
		}
		sc := seqio.NewAutoScanner(src)
		var seqs []gts.Sequence
		var early [][]byte
		for sc.Scan() {
			seq := sc.Value()
			seqs = append(seqs, seq)
			early = append(early, append([]byte(nil), seq.Bytes()...))
		}
		if err := sc.Err(); err != nil {
			r.err = err.Error()
		}
		// the records are read again after the whole stream has been scanned: a record must not change because a
		// later one was read (callers such as gts sort collect all records first)
		for i, seq := range seqs {
			d, _ := seq.Info().(string)
			if s, ok := seq.Info().(fmt.Stringer); ok {
				d = s.String()
			}
			r.descs = append(r.descs, d)
			r.datas = append(r.datas, append([]byte(nil), seq.Bytes()...))
			if !bytes.Equal(r.datas[i], early[i]) && r.err == "" {
				r.err = fmt.Sprintf("record %d read %q right after it was scanned and %q after the rest of the stream was scanned", i, clipStr(string(early[i]), 60), clipStr(string(r.datas[i]), 60))
			}
		}
	})
	return r
}

func c17Check(c c17Case) *Violation {
	if len(c.Recs) > 0 {
		recs := append([]c17Rec(nil), c.Recs...)
		for i := range recs {
			if len(recs[i].Raw) > 0 {
				recs[i].Desc = string(recs[i].Raw)
			}
		}
		c.Recs = recs
	}
	switch c.Mode {
	case "detect":
		// the format a file name asks for is named by its extension: the text behind the last dot of the last path element
		base := c.Def[strings.LastIndexByte(c.Def, '/')+1:]
		ext := ""
		if i := strings.LastIndexByte(base, '.'); i >= 0 {
			ext = base[i+1:]
		}
		want := map[string]seqio.FileType{"fasta": seqio.FastaFile, "fastq": seqio.FastqFile, "gb": seqio.GenBankFile, "genbank": seqio.GenBankFile, "emb": seqio.EMBLFile, "embl": seqio.EMBLFile}[ext]
		var got seqio.FileType
		if pi := guard(func() { got = seqio.Detect(c.Def) }); pi != nil {
			return panicViolation("Detect", pi)
		}
		if got != want {
			return viol("detect", "Detect(%q) = %d, the extension %q names %d", c.Def, got, ext, want)
		}
		return nil
	case "fuzz":
		return c17Fuzz(c.Input)
	case "roundtrip":
		var buf bytes.Buffer
		var werr error
		sharedDamage := ""
		if pi := guard(func() {
			if c.Fail > 0 {
				// an earlier write of this process that went wrong half-way (disk full, closed pipe): whatever it left
				// behind must not show up in what is written next
				bad := seqio.NewWriter(&limitedWriter{left: c.Fail}, seqio.FastaFile)
				bad.WriteSeq(seqio.Fasta{Desc: "lost record", Data: bytes.Repeat([]byte("T"), 300)})
				bad.WriteSeq(seqio.GenBank{Fields: seqio.GenBankFields{LocusName: "LOST", Molecule: gts.DNA, Topology: gts.Linear, Version: "LOST.1", Definition: "lost"}, Origin: seqio.NewOrigin(bytes.Repeat([]byte("g"), 150))})
			}
			w := seqio.NewWriter(&buf, seqio.FastaFile)
			if c.Shared {
				// tiles of one sequence: every record's residues are a window of the same buffer, the next window begins
				// inside or right behind this one - writing a record may only read its window
				var pool []byte
				offs := make([]int, len(c.Recs))
				for i, r := range c.Recs {
					offs[i] = len(pool)
					pool = append(pool, r.residues()...)
				}
				pool = append(pool, bytes.Repeat([]byte("#"), 80)...)
				snapshot := append([]byte(nil), pool...)
				for i, r := range c.Recs {
					if _, err := w.WriteSeq(seqio.Fasta{Desc: r.Desc, Data: pool[offs[i] : offs[i]+r.Len]}); err != nil {
						werr = err
					}
					if !bytes.Equal(pool, snapshot) {
						k := firstDiff(string(pool), string(snapshot))
						sharedDamage = fmt.Sprintf("writing record %d (%d residues, a window of a longer buffer) changed byte %d of that buffer (%d bytes behind the window) from %q to %q", i, r.Len, k, k-(offs[i]+r.Len), snapshot[k], pool[k])
						return
					}
				}
				return
			}
			for _, r := range c.Recs {
				if _, err := w.WriteSeq(seqio.Fasta{Desc: r.Desc, Data: r.residues()}); err != nil {
					werr = err
				}
			}
		}); pi != nil {
			return panicViolation("FASTA writer", pi)
		}
		if sharedDamage != "" {
			return viol("argument-modified", "%s", sharedDamage)
		}
		if werr != nil {
			return viol("write", "writer failed: %v", werr)
		}
		text := buf.String()
		// layout: description on one line, residue lines of exactly 70 columns except the last of each record
		lines := strings.Split(strings.TrimSuffix(text, "\n"), "\n")
		k := 0
		for ri, r := range c.Recs {
			if k >= len(lines) || lines[k] != ">"+r.Desc {
				return viol("layout", "record %d: description line is %q, want %q", ri, safeIndex(lines, k), ">"+r.Desc)
			}
			k++
			remaining := r.Len
			if remaining == 0 {
				// an empty record is written as one empty residue line
				if k < len(lines) && lines[k] == "" {
					k++
				}
				continue
			}
			for remaining > 0 {
				want := 70
				if remaining < 70 {
					want = remaining
				}
				if k >= len(lines) || len(lines[k]) != want {
					return viol("layout", "record %d (%d residues): residue line %q has %d columns, want %d", ri, r.Len, safeIndex(lines, k), len(safeIndex(lines, k)), want)
				}
				remaining -= want
				k++
			}
		}
		if k != len(lines) {
			return viol("layout", "unexpected extra lines in the output: %q", lines[k:])
		}
		if !strings.HasSuffix(text, "\n") {
			return viol("layout", "output does not end with a newline")
		}
		if c.CRLF {
			text = crlf(text)
		}
		rd := readAll(text, c.Deliv)
		if rd.panic != nil {
			return panicViolation("FASTA reader", rd.panic)
		}
		if rd.err != "" {
			return viol("read", "reading back %d records (reader: %s) failed: %s", len(c.Recs), deliveryNames[c.Deliv%len(deliveryNames)], rd.err)
		}
		if len(rd.descs) != len(c.Recs) {
			return viol("framing", "wrote %d records, read back %d (crlf=%v, reader: %s)", len(c.Recs), len(rd.descs), c.CRLF, deliveryNames[c.Deliv%len(deliveryNames)])
		}
		for i, r := range c.Recs {
			if rd.descs[i] != r.Desc {
				return viol("description", "record %d: description %q read back as %q (crlf=%v)", i, r.Desc, rd.descs[i], c.CRLF)
			}
			if want := r.residues(); !bytes.Equal(rd.datas[i], want) {
				return viol("residues", "record %d (%d residues, crlf=%v): read back %d residues, first difference at %d: %q", i, r.Len, c.CRLF, len(rd.datas[i]), firstDiff(string(rd.datas[i]), string(want)), clipStr(string(rd.datas[i]), 90))
			}
		}
		return nil
	case "genbank":
		data := c17Rec{Len: c.GLen, Seed: 3, Step: 7}.residues()
		fields := seqio.GenBankFields{LocusName: "L", Molecule: gts.DNA, Topology: gts.Linear, Division: "SYN",
			Date: seqio.Date{Year: 2001, Month: 2, Day: 3}, Definition: c.Def, Accession: "ACC", Version: c.Version}
		var seq gts.Sequence = seqio.GenBank{Fields: fields, Table: gts.FeatureSlice{gts.NewFeature("source", gts.Range(0, maxInt(c.GLen, 1)), gts.Props{{"mol_type", "genomic DNA"}})}, Origin: seqio.NewOrigin(data)}
		wantDesc := c.Version + " " + strings.ReplaceAll(c.Def, "\n", " ")
		want := data
		if c.Slice != nil {
			s, e := c.Slice[0], c.Slice[1]
			if pi := guard(func() { seq = gts.Slice(seq, s, e) }); pi != nil {
				return panicViolation("Slice", pi)
			}
			want = data[s:e]
			wantDesc = fmt.Sprintf("%s:%d-%d %s", c.Version, s+1, e, strings.ReplaceAll(c.Def, "\n", " "))
		}
		var buf bytes.Buffer
		var werr error
		if pi := guard(func() { _, werr = seqio.NewWriter(&buf, seqio.FastaFile).WriteSeq(seq) }); pi != nil {
			return panicViolation("FASTA writer (GenBank record)", pi)
		}
		if werr != nil {
			return viol("write", "writing a GenBank record as FASTA failed: %v", werr)
		}
		rd := readAll(buf.String())
		if rd.panic != nil {
			return panicViolation("FASTA reader", rd.panic)
		}
		if rd.err != "" || len(rd.descs) != 1 {
			return viol("framing", "GenBank->FASTA: read back %d records, error %q", len(rd.descs), rd.err)
		}
		if !bytes.Equal(rd.datas[0], want) {
			return viol("residues", "GenBank->FASTA: residues differ (%d vs %d)", len(rd.datas[0]), len(want))
		}
		if rd.descs[0] != wantDesc {
			return viol("description", "GenBank->FASTA: description %q, want %q", rd.descs[0], wantDesc)
		}
		return nil
	}
	return nil
}

func safeIndex(ss []string, k int) string {
	if k < len(ss) {
		return ss[k]
	}
	return "<missing>"
}

func clipStr(s string, n int) string {
	if len(s) > n {
		return s[:n] + "…"
	}
	return s
}

func c17Classify(c c17Case) (bool, []string) {
	labels := []string{"mode:" + c.Mode}
	nt := false
	if c.CRLF {
		labels = append(labels, "crlf")
	}
	if c.Mode == "roundtrip" {
		labels = append(labels, fmt.Sprintf("records=%d", len(c.Recs)))
		for _, r := range c.Recs {
			if r.Len%70 == 0 {
				labels = append(labels, "len%70==0")
				nt = true
			}
			if r.Len == 0 {
				labels = append(labels, "empty-residues")
			}
			if r.Desc == "" {
				labels = append(labels, "empty-desc")
			}
			if strings.Contains(r.Desc, ">") {
				labels = append(labels, "desc-has->")
			}
			if r.Len > 70 {
				nt = true
			}
		}
		if len(c.Recs) >= 2 {
			nt = true
		}
	} else {
		nt = true
		if c.Slice != nil {
			labels = append(labels, "sliced")
		}
	}
	return nt, labels
}

func c17KF(c c17Case, v *Violation) []string { return nil }

var c17Prop = &Prop[c17Case]{ID: "C17", Check: c17Check, Classify: c17Classify, KF: c17KF}

func init() { registerReplay(c17Prop) }

func c17GenDesc(t *rapid.T) string {
	switch rapid.IntRange(0, 5).Draw(t, "desckind") {
	case 0:
		return ""
	case 1:
		return rapid.SampledFrom([]string{" ", ">", " >x", "x ", "a  b", ">>", "LOCUS", "//", ";", "\\"}).Draw(t, "oddesc")
	case 2:
		// any byte that is not a line break: tabs, control characters, high bytes, UTF-8 sequences
		n := rapid.IntRange(1, 24).Draw(t, "desclen")
		var b []byte
		for i := 0; i < n; i++ {
			switch rapid.IntRange(0, 3).Draw(t, "chkind") {
			case 0:
				b = append(b, []byte(rapid.SampledFrom([]string{"\t", "é", "β", "→", "日本", "\x00", "\x7f", "\x0b", "\x0c", "\x85", "\xa0", "\xff", "\xc3"}).Draw(t, "odd"))...)
			default:
				b = append(b, byte(rapid.IntRange(32, 126).Draw(t, "ch")))
			}
		}
		return string(b)
	default:
		n := rapid.IntRange(1, 40).Draw(t, "desclen")
		b := make([]byte, n)
		for i := range b {
			b[i] = byte(rapid.IntRange(32, 126).Draw(t, "ch"))
		}
		return string(b)
	}
}

func c17Gen(t *rapid.T) c17Case {
	if rapid.IntRange(0, 4).Draw(t, "mode") == 0 {
		c := c17Case{Mode: "genbank", Version: rapid.SampledFrom([]string{"NC_000001.1", "X", "", "AB12.3"}).Draw(t, "ver"),
			Def:  rapid.SampledFrom([]string{"a definition", "", "two\nlines", "x, complete genome"}).Draw(t, "def"),
			GLen: rapid.IntRange(0, 300).Draw(t, "glen")}
		if c.GLen > 0 && rapid.Bool().Draw(t, "slice") {
			s := rapid.IntRange(0, c.GLen-1).Draw(t, "s")
			e := rapid.IntRange(s+1, c.GLen).Draw(t, "e")
			if rapid.IntRange(0, 5).Draw(t, "emptywindow") == 0 {
				e = s // a slice that holds no residue is still a slice: its description names the (empty) region
			}
			c.Slice = []int{s, e}
		}
		return c
	}
	n := rapid.IntRange(1, 5).Draw(t, "nrec")
	c := c17Case{Mode: "roundtrip", CRLF: rapid.Bool().Draw(t, "crlf")}
	c.Shared = rapid.IntRange(0, 3).Draw(t, "shared") == 0
	if rapid.IntRange(0, 3).Draw(t, "failedbefore") == 0 {
		c.Fail = rapid.SampledFrom([]int{1, 5, 12, 13, 14, 70, 84, 85, 200, 311}).Draw(t, "fail")
	}
	if rapid.IntRange(0, 2).Draw(t, "shortreads") == 0 {
		c.Deliv = rapid.IntRange(1, len(deliveryNames)-1).Draw(t, "deliv")
	}
	for i := 0; i < n; i++ {
		var l int
		switch rapid.IntRange(0, 4).Draw(t, "lenkind") {
		case 0:
			l = 70 * rapid.IntRange(0, 5).Draw(t, "mult")
		case 1:
			l = 70*rapid.IntRange(0, 5).Draw(t, "mult") + rapid.SampledFrom([]int{1, 69}).Draw(t, "off")
		case 2:
			l = rapid.IntRange(0, 5000).Draw(t, "biglen")
		default:
			l = rapid.IntRange(0, 300).Draw(t, "len")
		}
		desc, raw := c17GenDesc(t), []byte(nil)
		if !utf8.ValidString(desc) {
			desc, raw = "", []byte(desc)
		}
		c.Recs = append(c.Recs, c17Rec{Desc: desc, Raw: raw, Len: l, Seed: rapid.IntRange(0, 92).Draw(t, "seed"), Step: rapid.IntRange(1, 7).Draw(t, "step")})
	}
	return c
}

func TestC17(t *testing.T) {
	st := newStats("C17")
	defer st.flush()
	// sweep: every length 0..N (all remainders mod 70), single record and as the first/middle of a stream, LF and CRLF
	maxLen := pick(300, 1500)
	e := enumPart(t, c17Prop, st, "length-sweep")
	for n := 0; n <= maxLen; n++ {
		for _, cr := range []bool{false, true} {
			if !e.try(c17Case{Mode: "roundtrip", CRLF: cr, Recs: []c17Rec{{Desc: "d", Len: n, Seed: n, Step: 1}}}) {
				return
			}
			if !e.try(c17Case{Mode: "roundtrip", CRLF: cr, Recs: []c17Rec{{Desc: "a b", Len: n, Seed: 5, Step: 3}, {Desc: "", Len: (n * 7) % 211, Seed: 1, Step: 1}, {Desc: ">x", Len: n, Seed: 9, Step: 2}}}) {
				return
			}
		}
	}
	e.done(true)
	// read-size boundaries: the reader pulls its input in blocks; the first record's length is swept so that the next
	// header (and every byte of the line break before it) falls on every offset around multiples of 4096
	eb := enumPart(t, c17Prop, st, "read-boundary-sweep")
	centers := []int{4096, 8192}
	if thorough() {
		centers = append(centers, 12288, 16384, 32768, 65536)
	}
	for _, ctr := range centers {
		for n := ctr - 250; n <= ctr+150; n++ {
			for _, cr := range []bool{false, true} {
				if !eb.try(c17Case{Mode: "roundtrip", CRLF: cr, Recs: []c17Rec{{Desc: "d1 first record", Len: n, Seed: n, Step: 1}, {Desc: "second", Len: 61, Seed: 3, Step: 5}, {Desc: "", Len: n % 97, Seed: 1, Step: 1}, {Desc: "last", Len: 140, Seed: 2, Step: 1}}}) {
					return
				}
			}
		}
	}
	eb.done(true)
	// magnitudes: record bodies around powers of two and multiples of 65536 (where buffered or chunked code paths
	// switch), each with a short last line, a full last line and an exact multiple of the line width
	eg := enumPart(t, c17Prop, st, "large-records")
	for _, n := range magnitudeLens(thorough()) {
		if n < 4000 {
			continue
		}
		for _, m := range []int{n, n - n%70, n - n%70 + 69} {
			for _, cr := range []bool{false, true} {
				if !eg.try(c17Case{Mode: "roundtrip", CRLF: cr, Recs: []c17Rec{{Desc: "big", Len: m, Seed: m % 89, Step: 1}, {Desc: "after", Len: 71, Seed: 2, Step: 3}}}) {
					return
				}
			}
		}
	}
	eg.done(true)
	// GenBank records written as FASTA: whole and sliced, every window kind including the empty one at every position
	egb := enumPart(t, c17Prop, st, "genbank-windows")
	for _, n := range []int{1, 5, 70, 71, 140} {
		for s0 := 0; s0 <= n; s0++ {
			for _, e0 := range []int{s0, s0 + 1, n} {
				if e0 < s0 || e0 > n {
					continue
				}
				if !egb.try(c17Case{Mode: "genbank", Version: "AB12.3", Def: "a definition", GLen: n, Slice: []int{s0, e0}}) {
					return
				}
			}
		}
		if !egb.try(c17Case{Mode: "genbank", Version: "AB12.3", Def: "two\nlines", GLen: n}) {
			return
		}
	}
	egb.done(true)
	// file names: every combination of up to three dotted parts from format names and other words, with directories
	edt := enumPart(t, c17Prop, st, "detect-file-names")
	words := []string{"fasta", "gb", "genbank", "fastq", "embl", "emb", "txt", "3", "FASTA", "fa", "", "x"}
	for _, a := range words {
		for _, b := range words {
			for _, c3 := range words {
				for _, dir := range []string{"", "out.gb/", "a.fasta/b/", "./"} {
					name := dir + "plasmid"
					for _, w := range []string{a, b, c3} {
						if w != "" {
							name += "." + w
						}
					}
					if !edt.try(c17Case{Mode: "detect", Def: name}) {
						return
					}
				}
			}
		}
	}
	edt.done(true)
	// windows of one buffer: records of 0..72 and 139..141 residues cut from one sequence one after the other
	esh := enumPart(t, c17Prop, st, "windows-of-one-buffer")
	for n := 0; n <= 141; n++ {
		if n > 72 && n < 139 {
			continue
		}
		if !esh.try(c17Case{Mode: "roundtrip", Shared: true, Recs: []c17Rec{{Desc: "t0", Len: n, Seed: 3, Step: 1}, {Desc: "t1", Len: n, Seed: 9, Step: 2}, {Desc: "t2", Len: 1, Seed: 1, Step: 1}, {Desc: "t3", Len: 70, Seed: 2, Step: 1}}}) {
			return
		}
	}
	esh.done(true)
	// after a failed write: the same round trips in a process whose previous FASTA write broke off after k bytes
	efw := enumPart(t, c17Prop, st, "after-failed-write")
	for _, k := range []int{1, 2, 12, 13, 14, 15, 83, 84, 85, 86, 155, 156, 226, 300, 310, 311, 312, 313, 314, 400} {
		for _, n := range []int{0, 1, 70, 140, 300} {
			if !efw.try(c17Case{Mode: "roundtrip", Fail: k, Recs: []c17Rec{{Desc: "first after the failure", Len: n, Seed: 3, Step: 1}, {Desc: "second", Len: 71, Seed: 5, Step: 2}}}) {
				return
			}
		}
	}
	efw.done(true)
	// deliveries: the same streams through readers that hand the bytes over in other portions
	ed := enumPart(t, c17Prop, st, "deliveries")
	dl := []int{0, 1, 69, 70, 71, 140, 700, 3900, 4100}
	if thorough() {
		for n := 2; n <= 300; n++ {
			dl = append(dl, n)
		}
		dl = append(dl, 4026, 4027, 4028, 8100, 9000)
	}
	for _, n := range dl {
		for how := 1; how < len(deliveryNames); how++ {
			for _, cr := range []bool{false, true} {
				if !ed.try(c17Case{Mode: "roundtrip", CRLF: cr, Deliv: how, Recs: []c17Rec{{Desc: "d1 first record", Len: n, Seed: n, Step: 1}, {Desc: "", Len: n % 97, Seed: 1, Step: 1}, {Desc: ">x", Len: n, Seed: 9, Step: 2}, {Desc: "last", Len: 140, Seed: 2, Step: 1}}}) {
					return
				}
			}
		}
	}
	ed.done(true)
	rapidPart(t, c17Prop, st, "rapid", pick(4000, 60000), c17Gen)
}

// c17Fuzz: arbitrary bytes parsed as FASTA; whatever is accepted (and lies in the writable domain) must survive
// write -> read unchanged.
func c17Fuzz(in []byte) *Violation {
	if len(in) == 0 || in[0] != '>' {
		return nil
	}
	rd := readAll(string(in))
	if rd.panic != nil {
		return panicViolation("FASTA reader", rd.panic)
	}
	if rd.err != "" {
		return nil
	}
	var buf bytes.Buffer
	w := seqio.NewWriter(&buf, seqio.FastaFile)
	for i := range rd.descs {
		if bytes.ContainsAny(rd.datas[i], ">\r\n") || strings.ContainsAny(rd.descs[i], "\r\n") {
			return nil // outside the writable domain of the statement
		}
		w.WriteSeq(seqio.Fasta{Desc: rd.descs[i], Data: rd.datas[i]})
	}
	rd2 := readAll(buf.String())
	if rd2.panic != nil {
		return panicViolation("FASTA reader (second generation)", rd2.panic)
	}
	if rd2.err != "" || len(rd2.descs) != len(rd.descs) {
		return viol("framing", "%d records re-read as %d (%s)", len(rd.descs), len(rd2.descs), rd2.err)
	}
	for i := range rd.descs {
		if rd.descs[i] != rd2.descs[i] || !bytes.Equal(rd.datas[i], rd2.datas[i]) {
			return viol("roundtrip", "record %d changed: %q/%q vs %q/%q", i, rd.descs[i], rd.datas[i], rd2.descs[i], rd2.datas[i])
		}
	}
	return nil
}

// FuzzC17 (thorough): native coverage-guided fuzzing of parse -> write -> parse.
func FuzzC17(f *testing.F) {
	for _, s := range []string{">a\nACGT\n", ">a\n\n>b\nAC\nGT\n", ">\n", ">x\r\nAC\r\nGT\r\n", ">a desc\n" + strings.Repeat("A", 70) + "\n" + strings.Repeat("C", 70) + "\n"} {
		f.Add([]byte(s))
	}
	f.Fuzz(func(t *testing.T, in []byte) {
		if len(in) > 1<<16 {
			return
		}
		c := c17Case{Mode: "fuzz", Input: append([]byte(nil), in...)}
		if v := c17Check(c); v != nil {
			writeFail("C17", "fuzz", mustJSON(c), v)
			t.Fatalf("VIOLATION C17/fuzz [%s]: %s", v.Kind, v.Msg)
		}
	})
}
