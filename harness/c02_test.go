package harness

// C02 — Insert/Embed place the guest exactly and every feature keeps its residues.

import (
	"bytes"
	"fmt"
	"testing"

	"github.com/go-gts/gts"
	"github.com/go-gts/gts/seqio"
	"pgregory.net/rapid"
)

type c02Case struct {
	HostLen  int    `json:"host_len"`
	GuestLen int    `json:"guest_len"`
	Index    int    `json:"index"`
	Embed    bool   `json:"embed"`
	Host     []Feat `json:"host"`
	Guest    []Feat `json:"guest"`
	Carrier  int    `json:"carrier,omitempty"` // 0: gts.New values; 1: seqio.GenBank records; 2: the guest is a seqio.Fasta record (no table); 3: the guest is a GenBank record that holds a CONTIG line and no residues
}

// c02Carry builds the sequence value of the given kind.
func c02Carry(kind int, name string, feats []Feat, p []byte) gts.Sequence {
	switch kind {
	case 1, 3:
		f := seqio.GenBankFields{LocusName: name, Molecule: gts.DNA, Topology: gts.Linear, Division: "SYN", Date: seqio.Date{Year: 2020, Month: 1, Day: 2}, Definition: name, Accession: name, Version: name + ".1"}
		if kind == 3 {
			f.Contig = seqio.Contig{Accession: "CONTIG1.1", Region: gts.Segment{0, 500}}
			f.Division = "CON"
		}
		return seqio.GenBank{Fields: f, Table: featsToGts(feats), Origin: seqio.NewOrigin(append([]byte(nil), p...))}
	case 2:
		return seqio.Fasta{Desc: name, Data: append([]byte(nil), p...)}
	}
	return gts.New(nil, featsToGts(feats), append([]byte(nil), p...))
}

// siteCheck, when set by the caller, judges the position of a site-only feature (the edit properties fix where a
// zero-length site must end up even though their statements are phrased in residues: it may not jump over residues).
var siteCheck func(what string, got Loc) *Violation

// expectSites builds a siteCheck: the collapsed site list must equal one of the allowed lists.
func expectSites(allowed ...[]Elem) func(string, Loc) *Violation {
	return func(what string, got Loc) *Violation {
		g := collapse(den(got))
		for _, a := range allowed {
			if sameElems(collapse(a), g) {
				return nil
			}
		}
		return viol("site", "%s: site-only feature ends up at %s (location %s), allowed %v", what, elemsString(g), got, allowed)
	}
}

// compareFeature checks one result feature against an expected denotation and marker set.
func compareFeature(what string, got gts.Feature, want Feat, expDen []Elem, expMarkers []Marker, newLen int) *Violation {
	return compareFeatureCirc(what, got, want, expDen, expMarkers, newLen, false)
}

// compareFeatureCirc: with circular set, a run of residues that covers the whole circle is compared as
// "full-length" (canonFull) and its markers are not compared (a full circle has no outer ends that an
// origin change could keep in place).
func compareFeatureCirc(what string, got gts.Feature, want Feat, expDen []Elem, expMarkers []Marker, newLen int, circular bool) *Violation {
	if got.Key != want.Key {
		return viol("key", "%s: key changed from %q to %q", what, want.Key, got.Key)
	}
	if !propsEqual(got.Props, want.Quals) {
		return viol("qualifiers", "%s: qualifiers changed from %v to %v", what, want.Quals, got.Props)
	}
	ast, ok := fromGts(got.Loc)
	if !ok || !ast.wellFormed() {
		return viol("malformed", "%s: result location %#v is malformed (nil or empty part)", what, got.Loc)
	}
	if !ast.inBounds(newLen) {
		return viol("bounds", "%s: result location %s refers outside the new sequence of length %d", what, ast, newLen)
	}
	actDen := den(ast)
	if !hasResidue(expDen) {
		// the statement speaks of residues: a pure between-site feature must stay residue-free
		if hasResidue(actDen) {
			return viol("denotation", "%s: site-only feature now denotes residues %s (location %s)", what, elemsString(actDen), ast)
		}
		if siteCheck != nil {
			if v := siteCheck(what, ast); v != nil {
				return v
			}
		}
		return nil
	}
	expRes, actRes := residues(expDen), residues(actDen)
	full := false
	if circular {
		var f1, f2 bool
		expRes, f1 = canonFull(expRes, newLen)
		actRes, f2 = canonFull(actRes, newLen)
		full = f1 || f2
		if full {
			// a part that wraps the whole circle has no distinguished start: compare the residue sets
			expRes, actRes = elemSet(expRes), elemSet(actRes)
		}
	}
	if !sameElems(expRes, actRes) {
		return viol("denotation", "%s: expected residues %s, got %s (location %s)", what, elemsString(expRes), elemsString(actRes), ast)
	}
	if full {
		return nil
	}
	circL := 0
	if circular {
		circL = newLen
		// a marker on the origin junction of a wrapped part is interior; gts may drop it, but it must not invent one
		have := map[Marker]bool{}
		for _, m := range expMarkers {
			have[m] = true
		}
		lin := outerMarkers(actDen, markers(ast))
		for _, m := range lin {
			if ((m.Right && m.Pos == newLen-1) || (!m.Right && m.Pos == 0)) && !have[m] {
				cyc := outerMarkersCirc(actDen, markers(ast), newLen)
				found := false
				for _, k := range cyc {
					if k == m {
						found = true
					}
				}
				if !found {
					return viol("markers", "%s: partial marker %s invented on the origin junction (location %s)", what, m, ast)
				}
			}
		}
	}
	em, am := outerMarkersCirc(expDen, expMarkers, circL), outerMarkersCirc(actDen, markers(ast), circL)
	if !sameMarkers(em, am) {
		return viol("markers", "%s: expected partial markers %s, got %s (location %s)", what, markersString(em), markersString(am), ast)
	}
	return nil
}

func c02Check(c c02Case) *Violation {
	c.Carrier = mod(c.Carrier, 4)
	if c.Carrier == 3 {
		c.GuestLen = 0 // the record declares 500 bases and carries none
	}
	if c.Carrier >= 2 {
		c.Guest = nil
	}
	hostBytes, guestBytes := idBytes(0, c.HostLen), idBytes(40, c.GuestLen)
	hostKind := 0
	if c.Carrier == 1 {
		hostKind = 1
	}
	host := c02Carry(hostKind, "HOST", c.Host, hostBytes)
	guest := c02Carry(c.Carrier, "GUEST", c.Guest, guestBytes)
	var out gts.Sequence
	name := "Insert"
	if c.Embed {
		name = "Embed"
	}
	if pi := guard(func() {
		if c.Embed {
			out = gts.Embed(host, c.Index, guest)
		} else {
			out = gts.Insert(host, c.Index, guest)
		}
	}); pi != nil {
		return panicViolation(name, pi)
	}
	i, n := c.Index, c.GuestLen
	want := append(append(append([]byte{}, hostBytes[:i]...), guestBytes...), hostBytes[i:]...)
	if !bytes.Equal(out.Bytes(), want) {
		return viol("bytes", "%s(host=%q, %d, guest=%q) residues = %q, want %q", name, hostBytes, i, guestBytes, out.Bytes(), want)
	}
	// the result keeps reading host[:i]+guest+host[i:] when the same host later receives another guest (the host is
	// also built with spare capacity behind its residues, as a value that came out of an earlier edit has)
	{
		roomy := make([]byte, c.HostLen, c.HostLen+2*n+8)
		copy(roomy, hostBytes)
		host2 := gts.New(nil, featsToGts(c.Host), roomy)
		other := gts.New(nil, nil, idBytes(70, n))
		var first gts.Sequence
		if pi := guard(func() {
			if c.Embed {
				first = gts.Embed(host2, c.Index, guest)
				gts.Embed(host2, c.Index, other)
				gts.Embed(host, c.Index, other)
			} else {
				first = gts.Insert(host2, c.Index, guest)
				gts.Insert(host2, c.Index, other)
				gts.Insert(host, c.Index, other)
			}
		}); pi != nil {
			return panicViolation(name+" (second guest into the same host)", pi)
		}
		if !bytes.Equal(first.Bytes(), want) || !bytes.Equal(out.Bytes(), want) {
			return viol("bytes-later", "%s(host=%q, %d, guest=%q): after the same host received another guest the first result reads %q / %q, want %q", name, hostBytes, i, guestBytes, first.Bytes(), out.Bytes(), want)
		}
	}
	newLen := c.HostLen + n
	got := byLabel(out.Features())
	if len(out.Features()) != len(c.Host)+len(c.Guest) {
		return viol("count", "%s: result has %d features, want %d host + %d guest", name, len(out.Features()), len(c.Host), len(c.Guest))
	}
	// a table may list a feature twice, verbatim (same key, qualifiers and location): both entries stay
	mult := map[string]int{}
	for _, f := range c.Host {
		mult[f.label()]++
	}
	for _, f := range c.Guest {
		mult[f.label()]++
	}
	for _, f := range c.Host {
		gg := got[f.label()]
		if len(gg) != mult[f.label()] {
			return viol("presence", "%s: host feature %s present %d times, want %d", name, f.label(), len(gg), mult[f.label()])
		}
		for _, g := range gg[1:] {
			if g.Key != gg[0].Key || g.Loc.String() != gg[0].Loc.String() || fmt.Sprint(g.Props) != fmt.Sprint(gg[0].Props) {
				return viol("presence", "%s: the copies of host feature %s came out different: %v and %v", name, f.label(), gg[0], g)
			}
		}
		exp := insertLoc(f.Loc, i, n)
		if c.Embed {
			exp = embedLocExp(f.Loc, i, n)
		}
		expDen, expM := den(exp), markers(exp)
		siteCheck = nil
		if !hasResidue(expDen) {
			// a site exactly at the insertion index may stay in front of the guest or move behind it
			alt := mapLeaves(f.Loc, func(x Loc) Loc {
				if x.K == "bt" && x.A >= i {
					return lbt(x.A + n)
				}
				return x
			})
			siteCheck = expectSites(expDen, den(alt))
		}
		v := compareFeature(fmt.Sprintf("%s i=%d n=%d host %s %s", name, i, n, f.label(), f.Loc), gg[0], f, expDen, expM, newLen)
		siteCheck = nil
		if v != nil {
			return v
		}
	}
	for _, f := range c.Guest {
		gg := got[f.label()]
		if len(gg) != mult[f.label()] {
			return viol("presence", "%s: guest feature %s present %d times, want %d", name, f.label(), len(gg), mult[f.label()])
		}
		for _, g := range gg[1:] {
			if g.Key != gg[0].Key || g.Loc.String() != gg[0].Loc.String() || fmt.Sprint(g.Props) != fmt.Sprint(gg[0].Props) {
				return viol("presence", "%s: the copies of guest feature %s came out different: %v and %v", name, f.label(), gg[0], g)
			}
		}
		siteCheck = nil
		if !hasResidue(den(f.Loc)) {
			siteCheck = expectSites(den(shiftLoc(f.Loc, i)))
		}
		v := compareFeature(fmt.Sprintf("%s i=%d n=%d guest %s %s", name, i, n, f.label(), f.Loc), gg[0], f, den(shiftLoc(f.Loc, i)), markers(shiftLoc(f.Loc, i)), newLen)
		siteCheck = nil
		if v != nil {
			return v
		}
	}
	return nil
}

func c02Classify(c c02Case) (bool, []string) {
	labels := []string{"carrier:" + []string{"plain", "genbank", "fasta-guest", "contig-only-guest"}[mod(c.Carrier, 4)]}
	if c.Embed {
		labels = append(labels, "embed")
	} else {
		labels = append(labels, "insert")
	}
	near, span, startAt, endAt, pointAt := false, false, false, false, false
	for _, f := range c.Host {
		for _, x := range f.Loc.leaves() {
			switch x.K {
			case "pt":
				if x.A == c.Index {
					pointAt = true
				}
			case "rg", "am":
				if x.A < c.Index && c.Index < x.B {
					span = true
				}
				if x.A == c.Index {
					startAt = true
				}
				if x.B == c.Index {
					endAt = true
				}
			}
		}
		for _, co := range f.Loc.coords() {
			if d := co - c.Index; d >= -1 && d <= 1 {
				near = true
			}
		}
		labels = append(labels, "kind:"+f.Loc.K)
		if f.Loc.hasKind("co") {
			labels = append(labels, "has-complement")
		}
		if f.Loc.depth() >= 2 {
			labels = append(labels, "depth>=2")
		}
	}
	for k, v := range map[string]bool{"span-i": span, "start==i": startAt, "end==i": endAt, "point==i": pointAt} {
		if v {
			labels = append(labels, k)
		}
	}
	if c.GuestLen == 0 {
		labels = append(labels, "n=0")
	}
	if len(c.Guest) > 0 {
		labels = append(labels, "guest-features")
	}
	return c.GuestLen > 0 && (near || span), labels
}

var c02Prop = &Prop[c02Case]{ID: "C02", Check: c02Check, Classify: c02Classify}

func init() { registerReplay(c02Prop) }

func c02Gen(t *rapid.T) c02Case {
	L := drawLen(t, 0, 14, "L")
	n := drawCount(t, 0, 5, 400, "n")
	i := rapid.IntRange(0, L).Draw(t, "i")
	c := c02Case{HostLen: L, GuestLen: n, Index: i, Embed: rapid.Bool().Draw(t, "embed"), Carrier: rapid.SampledFrom([]int{0, 0, 0, 1, 1, 2, 3}).Draw(t, "carrier")}
	hc := locCfg{L: L, Hot: hotAround(L, i, 0), MaxDepth: 3, MaxParts: scopeParts(4), Ambig: true, Sites: true}
	gc := locCfg{L: n, Hot: []int{0, n}, MaxDepth: 2, MaxParts: 3, Ambig: true, Sites: true}
	c.Host = genFeats(t, hc, drawCount(t, 0, 4, 9, "nhost"), "h", true)
	c.Guest = genFeats(t, gc, rapid.IntRange(0, 3).Draw(t, "nguest"), "g", false)
	if genTwins {
		// verbatim copies of features, next to the original or elsewhere in the table
		twin := func(ff []Feat, name string) []Feat {
			if len(ff) == 0 {
				return ff
			}
			k := rapid.IntRange(0, len(ff)-1).Draw(t, name+"-twin")
			at := rapid.SampledFrom([]int{k + 1, k + 1, len(ff), 0}).Draw(t, name+"-at")
			out := append([]Feat{}, ff[:at]...)
			out = append(out, ff[k])
			return append(out, ff[at:]...)
		}
		if rapid.Bool().Draw(t, "twinhost") {
			c.Host = twin(c.Host, "h")
		} else {
			c.Guest = twin(c.Guest, "g")
		}
		if rapid.IntRange(0, 3).Draw(t, "twinboth") == 0 {
			c.Host, c.Guest = twin(c.Host, "h2"), twin(c.Guest, "g2")
		}
	}
	return c
}

// c02Templates enumerates all single-leaf and two-part locations over a sequence of length L.
func smallLocs(L int, sites, ambig bool) []Loc {
	leaves := []Loc{}
	for p := 0; p < L; p++ {
		leaves = append(leaves, lpt(p))
	}
	if sites {
		for g := 0; g <= L; g++ {
			leaves = append(leaves, lbt(g))
		}
	}
	for s := 0; s < L; s++ {
		for e := s + 1; e <= L; e++ {
			leaves = append(leaves, lrg(s, e), lprg(s, e, true, true))
			if e-s <= 2 {
				leaves = append(leaves, lprg(s, e, true, false), lprg(s, e, false, true))
			}
			if ambig && e-s >= 2 {
				leaves = append(leaves, lam(s, e))
			}
		}
	}
	return leaves
}

func TestC02(t *testing.T) {
	st := newStats("C02")
	defer st.flush()
	rapidPart(t, c02Prop, st, "rapid", pick(30000, 250000), c02Gen)
	if t.Failed() {
		return
	}
	rapidLargePart(t, c02Prop, st, pick(1500, 20000), c02Gen)
	if t.Failed() {
		return
	}
	rapidTwinsPart(t, c02Prop, st, pick(4000, 40000), c02Gen)
	if t.Failed() {
		return
	}
	// exhaustive sweep: L<=maxL, every single-leaf location and every join/order/complement of two leaves,
	// every index, n in {0,1,2,3}, Insert and Embed.
	maxL := pick(4, 6)
	// magnitudes: hosts and guests whose sizes sit on powers of two and multiples of 65536, one spanning feature
	eg := enumPart(t, c02Prop, st, "large-residues")
	for _, n := range magnitudeLensShort(thorough()) {
		span := []Feat{{Key: "gene", Loc: lrg(1, n-1), Quals: [][]string{{"label", "h0"}}}}
		for _, c := range []c02Case{
			{HostLen: n, GuestLen: 3, Index: n / 2, Host: span}, {HostLen: n, GuestLen: 70001, Index: n, Embed: true}, {HostLen: 70001, GuestLen: n, Index: 1},
			{HostLen: n, GuestLen: n, Index: 0, Host: span}, {HostLen: n, GuestLen: 65536, Index: n - 1, Embed: true, Host: span},
		} {
			if !eg.try(c) {
				return
			}
		}
	}
	eg.done(true)
	e := enumPart(t, c02Prop, st, "exhaustive-small")
	for L := 0; L <= maxL; L++ {
		leaves := smallLocs(L, true, true)
		var locs []Loc
		for _, a := range leaves {
			locs = append(locs, a, lco(a))
		}
		for _, a := range leaves {
			for _, b := range leaves {
				if a.K == "am" || b.K == "am" {
					continue
				}
				locs = append(locs, ljn(a, b), lor(a, b), lco(ljn(a, b)))
			}
		}
		for _, raw := range locs {
			canon, ok := fromGts(toGts(raw))
			if !ok {
				t.Fatalf("constructor result unreadable for %s", raw)
			}
			for i := 0; i <= L; i++ {
				for _, n := range []int{0, 1, 2, 3} {
					for _, emb := range []bool{false, true} {
						c := c02Case{HostLen: L, GuestLen: n, Index: i, Embed: emb,
							Host: []Feat{{Key: "gene", Loc: canon, Quals: [][]string{{"label", "h0"}}}}}
						if n > 0 {
							c.Guest = []Feat{{Key: "CDS", Loc: lrg(0, n), Quals: [][]string{{"label", "g0"}}}}
						}
						if !e.try(c) {
							return
						}
					}
				}
			}
		}
	}
	e.done(true)
}
