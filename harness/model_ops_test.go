package harness

// Expected (unreduced) location ASTs after each edit operation, written from the property statements,
// and a small simulation of the join reducer that is used ONLY to recognise the input-side trigger of a
// recorded known finding (a point that directly follows a range ending at that point is dropped).

// mapLeaves rebuilds the tree with every leaf replaced by f(leaf).
func mapLeaves(l Loc, f func(Loc) Loc) Loc {
	switch l.K {
	case "jn", "or", "co":
		out := Loc{K: l.K}
		for _, p := range l.Parts {
			out.Parts = append(out.Parts, mapLeaves(p, f))
		}
		return out
	}
	return f(l)
}

func insertLoc(l Loc, i, n int) Loc {
	if n == 0 {
		return l
	}
	return mapLeaves(l, func(x Loc) Loc {
		sh := func(p int) int {
			if p < i {
				return p
			}
			return p + n
		}
		switch x.K {
		case "pt":
			return lpt(sh(x.A))
		case "bt":
			if x.A > i {
				return lbt(x.A + n)
			}
			return x
		default:
			if x.A < i && i < x.B {
				left, right := x, x
				left.B, left.P3 = i, false
				right.A, right.B, right.P5 = i+n, x.B+n, false
				if x.K == "am" {
					return lor(left, right)
				}
				return ljn(left, right)
			}
			out := x
			out.A, out.B = sh(x.A), sh(x.B-1)+1
			return out
		}
	})
}

func embedLocExp(l Loc, i, n int) Loc {
	if n == 0 {
		return l
	}
	return mapLeaves(l, func(x Loc) Loc {
		if (x.K == "rg" || x.K == "am") && x.A < i && i < x.B {
			out := x
			out.B = x.B + n
			return out
		}
		return insertLoc(x, i, n)
	})
}

// deleteLoc: expected AST after removing [i,i+n). Ends of a contiguous part whose residues were cut off
// are marked partial (this is the *maximal* marking; the checks require only the feature-level ends, see
// cutEnds). A part that lost every residue becomes the site at gap i.
func deleteLoc(l Loc, i, n int) Loc {
	if n == 0 {
		return l
	}
	j := i + n
	gm := deleteMap(i, n)
	return mapLeaves(l, func(x Loc) Loc {
		switch x.K {
		case "pt":
			if q, ok := gm.res(x.A); ok {
				return lpt(q)
			}
			return lbt(i)
		case "bt":
			return lbt(gm.gap(x.A)[0])
		default:
			a, b := x.A, x.B
			na, nb := a, b
			if a >= i {
				na = maxInt(a-n, i)
			}
			if b > i {
				nb = maxInt(b-n, i)
			}
			if na >= nb {
				return lbt(i)
			}
			out := x
			out.A, out.B = na, nb
			if x.K == "rg" {
				if i <= a && a < j {
					out.P5 = true
				}
				if i < b && b <= j {
					out.P3 = true
				}
			}
			return out
		}
	})
}

func maxInt(a, b int) int {
	if a > b {
		return a
	}
	return b
}

func minInt(a, b int) int {
	if a < b {
		return a
	}
	return b
}

// sliceLoc: window [s,e) of a sequence of length L (forward window only).
func sliceLoc(l Loc, L, s, e int) Loc {
	return deleteLoc(deleteLoc(l, e, L-e), 0, s)
}

func rotateLoc(l Loc, L, n int) Loc {
	return mapLeaves(l, func(x Loc) Loc {
		switch x.K {
		case "pt":
			return lpt(mod(x.A+n, L))
		case "bt":
			return lbt(mod(x.A+n, L))
		default:
			if x.B-x.A == L {
				out := x
				out.A, out.B = 0, L
				return out
			}
			a, b := mod(x.A+n, L), mod(x.B-1+n, L)+1
			if a < b {
				out := x
				out.A, out.B = a, b
				return out
			}
			left, right := x, x
			left.A, left.B, left.P3 = a, L, false
			right.A, right.B, right.P5 = 0, b, false
			if x.K == "am" {
				return lor(left, right)
			}
			return ljn(left, right)
		}
	})
}

func reverseLoc(l Loc, L int) Loc {
	switch l.K {
	case "pt":
		return lpt(L - 1 - l.A)
	case "bt":
		return lbt(L - l.A)
	case "rg", "am":
		out := l
		out.A, out.B = L-l.B, L-l.A
		out.P5, out.P3 = l.P3, l.P5
		return out
	case "co":
		return lco(reverseLoc(l.Parts[0], L))
	default:
		out := Loc{K: l.K}
		for k := len(l.Parts) - 1; k >= 0; k-- {
			out.Parts = append(out.Parts, reverseLoc(l.Parts[k], L))
		}
		return out
	}
}

func shiftLoc(l Loc, off int) Loc {
	return mapLeaves(l, func(x Loc) Loc {
		out := x
		out.A += off
		if x.K == "rg" || x.K == "am" {
			out.B += off
		}
		return out
	})
}

// ---------------------------------------------------------------------------------------------
// reducer trigger simulation (known finding "join(range,point-at-its-end) drops the point")

// reduceSim mirrors what the constructors do to an unreduced AST (Join: flatten nested joins, drop
// repeats, absorb sites, merge abutting ranges, re-join consecutive complements in reverse order; Order:
// flatten nested orders; Complement of a complement unwraps) and reports whether, on the way, a point p was
// pushed directly after a range whose exclusive end is p. In gts that point is silently dropped although it
// denotes residue p, which the range does not contain (pinned by TestLocationReduction:
// Join(Range(3,6), Point(6)) == Range(3,6)). The returned AST has the point dropped, like gts.
func reduceSim(l Loc) (Loc, bool) {
	switch l.K {
	case "co":
		in, t := reduceSim(l.Parts[0])
		if in.K == "co" {
			return in.Parts[0], t
		}
		return lco(in), t
	case "or":
		trig := false
		var flat []Loc
		var add func(x Loc)
		add = func(x Loc) {
			if x.K == "or" {
				for _, p := range x.Parts {
					add(p)
				}
				return
			}
			r, t := reduceSim(x)
			trig = trig || t
			if r.K == "or" {
				flat = append(flat, r.Parts...)
				return
			}
			flat = append(flat, r)
		}
		for _, p := range l.Parts {
			add(p)
		}
		if len(flat) == 1 {
			return flat[0], trig
		}
		return Loc{K: "or", Parts: flat}, trig
	case "jn":
		trig := false
		// Join first flattens nested joins (sub-locations are reduced as their constructors would have) ...
		var flat []Loc
		var add func(x Loc)
		add = func(x Loc) {
			if x.K == "jn" {
				for _, p := range x.Parts {
					add(p)
				}
				return
			}
			if len(x.Parts) > 0 {
				r, t := reduceSim(x)
				trig = trig || t
				if r.K == "jn" {
					add(r)
					return
				}
				x = r
			}
			flat = append(flat, x)
		}
		for _, p := range l.Parts {
			add(p)
		}
		var list []Loc
		push := func(x Loc) {
			if len(list) == 0 {
				list = append(list, x)
				return
			}
			last := &list[len(list)-1]
			switch last.K {
			case "bt":
				if x.K == "bt" && x.A == last.A {
					return
				}
				if (x.K == "pt" || x.K == "rg") && x.A == last.A {
					*last = x
					return
				}
			case "pt":
				if x.K == "bt" && x.A == last.A+1 {
					return
				}
				if x.K == "pt" && x.A == last.A {
					return
				}
				if x.K == "rg" && x.A == last.A {
					*last = x
					return
				}
			case "rg":
				if x.K == "bt" && x.A == last.B {
					return
				}
				if x.K == "pt" && x.A == last.B {
					trig = true
					return
				}
				if x.K == "rg" && x.A == last.B {
					last.B, last.P3 = x.B, x.P3
					return
				}
			case "co":
				if x.K == "co" {
					inner, t := reduceSim(ljn(x.Parts[0], last.Parts[0]))
					trig = trig || t
					*last = lco(inner)
					return
				}
			}
			list = append(list, x)
		}
		// ... then pushes the parts one by one, a run of complemented parts as the single complement of the
		// enclosed parts joined in reverse order ...
		pass := func(in []Loc) {
			list = nil
			for i := 0; i < len(in); i++ {
				x := in[i]
				if x.K == "co" {
					j := i
					for j+1 < len(in) && in[j+1].K == "co" {
						j++
					}
					if j > i {
						var inner []Loc
						for k := j; k >= i; k-- {
							inner = append(inner, in[k].Parts[0])
						}
						r, t := reduceSim(Loc{K: "jn", Parts: inner})
						trig = trig || t
						x, i = lco(r), j
					}
				}
				push(x)
			}
		}
		pass(flat)
		// ... and repeats the reduction until the number of parts is stable
		for n := len(list); n > 1; n = len(list) {
			pass(list)
			if len(list) == n {
				break
			}
		}
		if len(list) == 1 {
			return list[0], trig
		}
		return Loc{K: "jn", Parts: list}, trig
	}
	return l, false
}

// pointAbsorbed reports whether reducing l drops a point after a range (see reduceSim).
func pointAbsorbed(l Loc) bool {
	_, t := reduceSim(l)
	return t
}
