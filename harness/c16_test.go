package harness

// C16 — ORIGIN block layout is exact for every sequence length.

import (
	"bytes"
	"fmt"
	"strings"
	"testing"

	"github.com/go-gts/gts"
	"github.com/go-gts/gts/seqio"
)

type c16Case struct {
	Mode  string `json:"mode"`            // layout, scan, mutate
	Len   int    `json:"len"`             // residue count
	Alpha string `json:"alpha"`           // residues are Alpha repeated cyclically
	Pos   int    `json:"pos,omitempty"`   // mutate: byte offset inside the block
	Op    string `json:"op,omitempty"`    // mutate: "del", "dup", "set", "swap" (with the next byte)
	Byte  int    `json:"byte,omitempty"`  // mutate: replacement byte for "set"
	Pad   int    `json:"pad,omitempty"`   // scan: extra characters in the definition (shifts the ORIGIN block in the stream)
	Mix   int    `json:"mix,omitempty"`   // scan: line i of the ORIGIN block ends in CRLF iff bit (i mod 7) of Mix is set (a block with mixed line ends)
	Trail int    `json:"trail,omitempty"` // scan: this many blanks behind the residues of ORIGIN lines (which lines: Mix, 0 = all)
	From  int    `json:"from,omitempty"`  // scan: Trail / Mix apply to the lines from this index on only (a long canonical block with an irregular end)
	Deliv int    `json:"deliv,omitempty"` // scan, stream: how the reader hands the bytes over (deliveryNames)
	Lens  []int  `json:"lens,omitempty"`  // stream: residue counts of the records of one stream (record k uses Alpha rotated by k)
}

func (c c16Case) residues() []byte {
	p := make([]byte, c.Len)
	for i := range p {
		p[i] = c.Alpha[i%len(c.Alpha)]
	}
	return p
}

// refOrigin is the harness's own formatter, written from the statement: per line a 9-column right-aligned
// 1-based index and up to six space-separated groups of up to ten residues.
func refOrigin(p []byte) string {
	var b strings.Builder
	for i := 0; i < len(p); i += 60 {
		idx := fmt.Sprint(i + 1)
		b.WriteString(strings.Repeat(" ", 9-len(idx)))
		b.WriteString(idx)
		for j := i; j < i+60 && j < len(p); j += 10 {
			b.WriteByte(' ')
			k := j + 10
			if k > len(p) {
				k = len(p)
			}
			b.Write(p[j:k])
		}
		b.WriteByte('\n')
	}
	return b.String()
}

func c16Record(n int, block string) string { return c16RecordPad(n, block, 0) }

// c16RecordPad: the record with pad extra characters in its (one-line) definition, which moves every later byte of the
// record by exactly pad positions in the stream.
func c16RecordPad(n int, block string, pad int) string {
	return fmt.Sprintf("LOCUS       TEST              %10d bp    DNA     linear   SYN 01-JAN-2020\n"+
		"DEFINITION  d"+strings.Repeat("x", pad)+".\nACCESSION   A\nVERSION     A.1\nKEYWORDS    .\nSOURCE      s\n  ORGANISM  o\n            Bacteria.\n"+
		"FEATURES             Location/Qualifiers\n     misc_feature    1\nORIGIN      \n%s//\n", n, block)
}

type scanResult struct {
	ok    bool
	n     int
	data  []byte
	err   string
	lens  []int
	panic *PanicInfo
}

func scanOne(text string, how int) scanResult {
	var r scanResult
	r.panic = guard(func() {
		sc := seqio.NewAutoScanner(deliver([]byte(text), how))
		for sc.Scan() {
			seq := sc.Value()
			r.n++
			r.lens = append(r.lens, gts.Len(seq))
			r.data = append([]byte(nil), seq.Bytes()...)
		}
		if err := sc.Err(); err != nil {
			r.err = err.Error()
		}
		r.ok = r.err == "" && r.n > 0
	})
	return r
}

func crlf(s string) string {
	return strings.ReplaceAll(strings.ReplaceAll(s, "\r\n", "\n"), "\n", "\r\n")
}

func c16Check(c c16Case) *Violation {
	p := c.residues()
	want := refOrigin(p)
	switch c.Mode {
	case "layout":
		var v *Violation
		if pi := guard(func() {
			o := seqio.NewOrigin(append([]byte(nil), p...))
			s1 := o.String()
			if s1 != want {
				v = viol("layout", "NewOrigin(%d residues).String() differs from the reference layout at byte %d (got %d bytes, want %d)", c.Len, firstDiff(s1, want), len(s1), len(want))
				return
			}
			if o.Len() != c.Len {
				v = viol("len", "Len() before decoding = %d for %d residues (block of %d bytes)", o.Len(), c.Len, len(want))
				return
			}
			b := o.Bytes()
			if !bytes.Equal(b, p) {
				v = viol("bytes", "Bytes() of a %d-residue block returns %d bytes, first difference at %d", c.Len, len(b), firstDiff(string(b), string(p)))
				return
			}
			if o.Len() != c.Len || len(o.Bytes()) != c.Len {
				v = viol("len", "Len() after decoding = %d for %d residues", o.Len(), c.Len)
				return
			}
			if s2 := o.String(); s2 != s1 {
				v = viol("layout", "String() changed by decoding for %d residues (first difference at %d)", c.Len, firstDiff(s2, s1))
				return
			}
			// a block that arrives as text (what the reader hands over)
			block := []byte(want)
			o2 := &seqio.Origin{Buffer: block, Parsed: false}
			defer func() {
				if v != nil {
					return
				}
				// the block handed over is still the block: whoever else holds these bytes (the reader's buffer, a second
				// Origin over them) decodes the same residues from them
				if string(block) != want {
					v = viol("block-changed", "decoding a block of %d residues changed the bytes it was given at byte %d", c.Len, firstDiff(string(block), want))
					return
				}
				o3 := &seqio.Origin{Buffer: block, Parsed: false}
				if b3 := o3.Bytes(); !bytes.Equal(b3, p) {
					v = viol("bytes", "decoding the same block of %d residues a second time gives %d bytes, first difference at %d", c.Len, len(b3), firstDiff(string(b3), string(p)))
				}
			}()
			if o2.Len() != c.Len {
				v = viol("len", "Len() of a %d-byte block = %d, want %d", len(want), o2.Len(), c.Len)
				return
			}
			if b2 := o2.Bytes(); !bytes.Equal(b2, p) {
				v = viol("bytes", "decoding the reference block of %d residues gives %d bytes, first difference at %d", c.Len, len(b2), firstDiff(string(b2), string(p)))
				return
			}
		}); pi != nil {
			return panicViolation(fmt.Sprintf("Origin of %d residues", c.Len), pi)
		}
		return v
	case "scan":
		text := c16RecordPad(c.Len, want, c.Pad)
		lf, cr := scanOne(text, c.Deliv), scanOne(crlf(text), c.Deliv)
		runs := []struct {
			name string
			r    scanResult
		}{{"LF", lf}, {"CRLF", cr}}
		if c.Trail > 0 {
			// blanks behind the residues of a line (fixed-width exports pad their lines): such blocks take the slow path
			// and read like the canonical block
			var padded strings.Builder
			for i, line := range strings.SplitAfter(want, "\n") {
				if line != "" && i >= c.From && (c.Mix == 0 || c.Mix>>(uint(i)%7)&1 == 1) {
					line = strings.TrimSuffix(line, "\n") + strings.Repeat(" ", c.Trail) + "\n"
				}
				padded.WriteString(line)
			}
			pt := c16RecordPad(c.Len, padded.String(), c.Pad)
			runs = append(runs, struct {
				name string
				r    scanResult
			}{fmt.Sprintf("%d-blanks-behind-lines(%b) LF", c.Trail, c.Mix), scanOne(pt, c.Deliv)}, struct {
				name string
				r    scanResult
			}{fmt.Sprintf("%d-blanks-behind-lines(%b) CRLF", c.Trail, c.Mix), scanOne(crlf(pt), c.Deliv)})
		} else if c.Mix != 0 {
			// the slow path reads line by line: which lines end in CRLF is a matter of each line
			var mixed strings.Builder
			for i, line := range strings.SplitAfter(want, "\n") {
				if line != "" && i >= c.From && c.Mix>>(uint(i)%7)&1 == 1 {
					line = strings.TrimSuffix(line, "\n") + "\r\n"
				}
				mixed.WriteString(line)
			}
			runs = append(runs, struct {
				name string
				r    scanResult
			}{fmt.Sprintf("mixed-line-ends(%b)", c.Mix), scanOne(c16RecordPad(c.Len, mixed.String(), c.Pad), c.Deliv)})
		}
		for _, x := range runs {
			if x.r.panic != nil {
				return panicViolation(fmt.Sprintf("scanning a %d-residue record (%s)", c.Len, x.name), x.r.panic)
			}
			if !x.r.ok || x.r.n != 1 {
				return viol("scan", "%s record with %d residues (reader: %s): %d records, error %q", x.name, c.Len, deliveryNames[c.Deliv%len(deliveryNames)], x.r.n, x.r.err)
			}
			if x.r.lens[0] != c.Len || !bytes.Equal(x.r.data, p) {
				return viol("scan", "%s record with %d residues (reader: %s) reads back %d (Len %d), first difference at %d", x.name, c.Len, deliveryNames[c.Deliv%len(deliveryNames)], len(x.r.data), x.r.lens[0], firstDiff(string(x.r.data), string(p)))
			}
		}
		return nil
	case "stream":
		// several records in one stream; all records are collected first and read afterwards (as gts sort does), then
		// once more: a record must not change because a later one was scanned, whichever path read it
		var text strings.Builder
		var wants [][]byte
		for k, n := range c.Lens {
			rot := k % len(c.Alpha)
			pk := c16Case{Len: n, Alpha: c.Alpha[rot:] + c.Alpha[:rot]}.residues()
			if k%2 == 1 {
				pk = bytes.ToUpper(pk)
			}
			wants = append(wants, pk)
			text.WriteString(c16Record(n, refOrigin(pk)))
		}
		for _, variant := range []struct {
			name, text string
		}{{"LF", text.String()}, {"CRLF", crlf(text.String())}} {
			var seqs []gts.Sequence
			var errText string
			if pi := guard(func() {
				sc := seqio.NewAutoScanner(deliver([]byte(variant.text), c.Deliv))
				for sc.Scan() {
					seqs = append(seqs, sc.Value())
				}
				if err := sc.Err(); err != nil {
					errText = err.Error()
				}
			}); pi != nil {
				return panicViolation(fmt.Sprintf("scanning a stream of %v residues (%s)", c.Lens, variant.name), pi)
			}
			if errText != "" || len(seqs) != len(c.Lens) {
				return viol("scan", "%s stream of %v residues (reader: %s): %d records, error %q", variant.name, c.Lens, deliveryNames[c.Deliv%len(deliveryNames)], len(seqs), errText)
			}
			for round := 0; round < 2; round++ {
				for k, seq := range seqs {
					var n int
					var data []byte
					if pi := guard(func() { n = gts.Len(seq); data = seq.Bytes() }); pi != nil {
						return panicViolation(fmt.Sprintf("reading record %d of a stream of %v residues (%s)", k, c.Lens, variant.name), pi)
					}
					if n != c.Lens[k] || !bytes.Equal(data, wants[k]) {
						return viol("stream", "%s stream of %v residues: record %d read after the whole stream was scanned has Len %d and %d residues, first difference at %d", variant.name, c.Lens, k, n, len(data), firstDiff(string(data), string(wants[k])))
					}
				}
			}
		}
		return nil
	case "mutate":
		block := []byte(want)
		if c.Pos >= len(block) {
			return nil
		}
		var mut []byte
		switch c.Op {
		case "del":
			mut = append(append([]byte{}, block[:c.Pos]...), block[c.Pos+1:]...)
		case "dup":
			mut = append(append(append([]byte{}, block[:c.Pos+1]...), block[c.Pos]), block[c.Pos+1:]...)
		case "ins":
			// one byte more in front of the byte at Pos (in front of a line end: something behind the residues)
			mut = append(append(append([]byte{}, block[:c.Pos]...), byte(c.Byte)), block[c.Pos:]...)
		case "swap":
			mut = append([]byte{}, block...)
			if c.Pos+1 < len(mut) {
				mut[c.Pos], mut[c.Pos+1] = mut[c.Pos+1], mut[c.Pos]
			}
		default:
			mut = append([]byte{}, block...)
			mut[c.Pos] = byte(c.Byte)
		}
		text := c16Record(c.Len, string(mut))
		lf, cr := scanOne(text, 0), scanOne(crlf(text), 0)
		if lf.panic != nil {
			return panicViolation(fmt.Sprintf("scanning a mutated %d-residue block (LF, %s at %d)", c.Len, c.Op, c.Pos), lf.panic)
		}
		if cr.panic != nil {
			return panicViolation(fmt.Sprintf("scanning a mutated %d-residue block (CRLF, %s at %d)", c.Len, c.Op, c.Pos), cr.panic)
		}
		// "accepted" = scanned without error AND read as the declared number of residues; a record that scans but
		// comes back empty/shortened counts as not accepted here (its silent acceptance is C07's concern)
		lf.ok = lf.ok && lf.n == 1 && lf.lens[0] == c.Len
		cr.ok = cr.ok && cr.n == 1 && cr.lens[0] == c.Len
		if lf.ok != cr.ok {
			return viol("path-disagreement", "mutated block (%d residues, %s at %d, byte %d): LF spelling accepted=%v (%q), CRLF spelling accepted=%v (%q)", c.Len, c.Op, c.Pos, c.Byte, lf.ok, lf.err, cr.ok, cr.err)
		}
		if lf.ok && !bytes.Equal(lf.data, cr.data) {
			return viol("path-disagreement", "mutated block (%d residues, %s at %d): LF reads %q, CRLF reads %q", c.Len, c.Op, c.Pos, lf.data, cr.data)
		}
		return nil
	}
	return nil
}

func firstDiff(a, b string) int {
	n := len(a)
	if len(b) < n {
		n = len(b)
	}
	for i := 0; i < n; i++ {
		if a[i] != b[i] {
			return i
		}
	}
	return n
}

func c16Classify(c c16Case) (bool, []string) {
	labels := []string{"mode:" + c.Mode, fmt.Sprintf("mod10=%d", c.Len%10)}
	if c.Len%60 == 0 {
		labels = append(labels, "mod60=0")
	}
	if c.Len >= 99990 {
		labels = append(labels, "index-width>=6")
	}
	return c.Len > 0, labels
}

func c16KF(c c16Case, v *Violation) []string { return nil }

var c16Prop = &Prop[c16Case]{ID: "C16", Check: c16Check, Classify: c16Classify, KF: c16KF}

func init() { registerReplay(c16Prop) }

var c16Alphabets = []string{
	"acgt",
	func() string {
		b := []byte{}
		for ch := byte(33); ch <= 126; ch++ {
			b = append(b, ch)
		}
		return string(b)
	}(),
	"0123456789",
	"/",
	"ACGTNRYKM-*",
}

func TestC16(t *testing.T) {
	st := newStats("C16")
	defer st.flush()
	// layout: every length 0..N, every alphabet for small lengths, two alphabets for all
	maxAll := pick(3000, 20000)
	e := enumPart(t, c16Prop, st, "layout-all-lengths")
	for n := 0; n <= maxAll; n++ {
		for ai, a := range c16Alphabets {
			if n > 200 && ai >= 2 {
				break
			}
			if !e.try(c16Case{Mode: "layout", Len: n, Alpha: a}) {
				return
			}
		}
	}
	e.done(true)
	// layout at index-width changes and large multiples
	e2 := enumPart(t, c16Prop, st, "layout-large")
	var big []int
	for _, base := range []int{9990, 99990, 100000, 999960, 1000000} {
		for d := -11; d <= 71; d++ {
			if base+d > maxAll {
				big = append(big, base+d)
			}
		}
	}
	if thorough() {
		for _, base := range []int{9999960, 10000020} {
			for d := -2; d <= 2; d++ {
				big = append(big, base+d)
			}
		}
	}
	for _, n := range big {
		if !e2.try(c16Case{Mode: "layout", Len: n, Alpha: c16Alphabets[0]}) {
			return
		}
	}
	e2.done(true)
	// scan: full records through the LF (fast) and CRLF (slow) paths
	e3 := enumPart(t, c16Prop, st, "scan-lf-crlf")
	maxScan := pick(400, 3000)
	for n := 0; n <= maxScan; n++ {
		for ai, a := range c16Alphabets[:3] {
			if n > 130 && ai >= 1 {
				break
			}
			if !e3.try(c16Case{Mode: "scan", Len: n, Alpha: a}) {
				return
			}
		}
	}
	for _, n := range []int{9999, 10000, 10001, 99999, 100000, 100001, 100061} {
		if !e3.try(c16Case{Mode: "scan", Len: n, Alpha: c16Alphabets[0]}) {
			return
		}
	}
	e3.done(true)
	// streams: two to four records of mixed sizes (later ones smaller, equal, larger), collected before they are read
	e5 := enumPart(t, c16Prop, st, "streams")
	sizes := []int{0, 1, 7, 59, 60, 61, 97, 131, 150, 211, 1021}
	for _, a := range sizes {
		for _, b := range sizes {
			if !e5.try(c16Case{Mode: "stream", Alpha: "acgt", Lens: []int{a, b}}) {
				return
			}
			if !e5.try(c16Case{Mode: "stream", Alpha: "acgtn", Lens: []int{a, b, a}}) || !e5.try(c16Case{Mode: "stream", Alpha: "acg", Lens: []int{1021, a, 0, b}}) {
				return
			}
		}
	}
	// a second record whose LOCUS line falls on every offset around a 4096-byte read boundary
	for n := 4096 - 900; n <= 4096+100; n++ {
		if thorough() || n%3 == 0 {
			if !e5.try(c16Case{Mode: "stream", Alpha: "acgt", Lens: []int{n, 61, n % 53}}) {
				return
			}
		}
	}
	e5.done(true)
	// read-size boundaries: the record is shifted byte by byte through a whole 4096-byte period, so that every byte of
	// the ORIGIN block and of its line ends (LF and CRLF) is once the last and once the first byte of a read block
	e6 := enumPart(t, c16Prop, st, "read-boundary-sweep")
	sweepLens := []int{130}
	if thorough() {
		sweepLens = []int{1, 61, 130, 600}
	}
	for _, n := range sweepLens {
		for pad := 0; pad < 4096; pad++ {
			if !e6.try(c16Case{Mode: "scan", Len: n, Alpha: "acgt", Pad: pad}) {
				return
			}
		}
	}
	e6.done(true)
	// mixed line ends inside one block: every pattern of LF / CRLF over the first seven lines
	em := enumPart(t, c16Prop, st, "mixed-line-ends")
	for _, n := range []int{1, 60, 61, 70, 119, 120, 121, 185, 421, 600, 1021} {
		for mix := 1; mix < 128; mix++ {
			if n <= 120 && mix >= 8 {
				break
			}
			if !em.try(c16Case{Mode: "scan", Len: n, Alpha: "acgt", Mix: mix, Pad: mix % 3}) {
				return
			}
		}
	}
	em.done(true)
	// padded lines: 1..200 blanks behind the residues of all lines, of the first, of the last line
	etr := enumPart(t, c16Prop, st, "padded-lines")
	for _, n := range []int{1, 59, 60, 61, 120, 130, 600} {
		lines := (n + 59) / 60
		for _, k := range []int{1, 2, 4, 5, 6, 7, 10, 21, 25, 52, 57, 100, 180, 200} {
			for _, mix := range []int{0, 1, 1 << (uint(lines-1) % 7)} {
				if !etr.try(c16Case{Mode: "scan", Len: n, Alpha: "acgt", Trail: k, Mix: mix}) {
					return
				}
			}
		}
	}
	etr.done(true)
	// late irregular lines: long canonical blocks (64 KiB .. 1 MiB of lines) whose first padded or CRLF line comes
	// only near the end - where a reader that has begun on its fast path has to hand over to the slow one
	elt := enumPart(t, c16Prop, st, "late-irregular-lines")
	for _, lines := range []int{700, 862, 863, 900, 1200, 4100, pick(8200, 17000)} {
		n := 60*(lines-1) + 41
		for _, back := range []int{1, 2, 100, 300} {
			if back >= lines {
				continue
			}
			for _, v := range []c16Case{{Trail: 1}, {Trail: 7}, {Mix: 127}, {Mix: 1 << (uint(lines-1) % 7)}} {
				v.Mode, v.Len, v.Alpha, v.From = "scan", n, "acgt", lines-back
				if !elt.try(v) {
					return
				}
			}
		}
	}
	elt.done(false)
	// deliveries: the same records through readers that hand the bytes over in other portions (one byte at a time, 7,
	// 4095, 4096+1, half of what is asked for, ragged, last bytes together with io.EOF)
	e7 := enumPart(t, c16Prop, st, "deliveries")
	dl := []int{0, 1, 59, 60, 61, 130, 600, 3400, 4000}
	if thorough() {
		for n := 2; n <= 400; n++ {
			dl = append(dl, n)
		}
		dl = append(dl, 3000, 3399, 3401, 5000, 9000)
	}
	for _, n := range dl {
		for how := 1; how < len(deliveryNames); how++ {
			for _, pad := range []int{0, 1, 2, 3, 5, 11} {
				if !e7.try(c16Case{Mode: "scan", Len: n, Alpha: "acgt", Pad: pad, Deliv: how}) {
					return
				}
			}
			if !e7.try(c16Case{Mode: "stream", Alpha: "acgt", Lens: []int{n, 61, n % 53, n}, Deliv: how}) {
				return
			}
		}
	}
	e7.done(true)
	// mutate: every byte offset of the block x {delete, duplicate, set to space/letter/digit/newline}
	e4 := enumPart(t, c16Prop, st, "mutated-blocks")
	lens := []int{1, 9, 10, 11, 59, 60, 61, 70, 119, 120, 121}
	if thorough() {
		lens = append(lens, 2, 19, 20, 21, 50, 130, 180, 181)
	}
	for _, n := range lens {
		blockLen := len(refOrigin(make([]byte, n)))
		for pos := 0; pos < blockLen; pos++ {
			for _, m := range []c16Case{
				{Op: "del"}, {Op: "dup"}, {Op: "set", Byte: ' '}, {Op: "set", Byte: 'x'}, {Op: "set", Byte: '7'}, {Op: "set", Byte: '\n'}, {Op: "set", Byte: '\t'},
				{Op: "set", Byte: '0'}, {Op: "set", Byte: '+'}, {Op: "set", Byte: '-'}, {Op: "swap"},
				{Op: "ins", Byte: ' '}, {Op: "ins", Byte: '\t'}, {Op: "ins", Byte: '\v'}, {Op: "ins", Byte: '\f'}, {Op: "ins", Byte: 0xa0}, {Op: "ins", Byte: 0x85}, {Op: "ins", Byte: 'a'}, {Op: "ins", Byte: '\r'},
			} {
				m.Mode, m.Len, m.Alpha, m.Pos = "mutate", n, "acgt", pos
				if !e4.try(m) {
					return
				}
			}
		}
	}
	e4.done(true)
	// long blocks (2^14 lines and more, about a million residues): one damaged byte in the last lines, in the first
	// line and in the middle - the sizes at which a reader may switch to checking a block in pieces
	e4b := enumPart(t, c16Prop, st, "mutated-long-blocks")
	for _, lines := range []int{1 << 14, 1<<14 + 1, 1<<14 + 3, 1<<14 + 7, pick(1<<14+13, 1<<15+5)} {
		n := 60*(lines-1) + 37
		blockLen := len(refOrigin(make([]byte, n)))
		for _, back := range []int{2, 5, 13, 30, 48, 52, 90, 130, 200, 270, 400, 480, blockLen / 2, blockLen - 15} {
			for _, m := range []c16Case{{Op: "set", Byte: ' '}, {Op: "del"}, {Op: "set", Byte: '\t'}} {
				m.Mode, m.Len, m.Alpha, m.Pos = "mutate", n, "acgt", blockLen-back
				if !e4b.try(m) {
					return
				}
			}
		}
	}
	e4b.done(false)
}
