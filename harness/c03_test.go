package harness

// C03 — Delete/Erase/Slice remove exactly the requested residues and features follow.

import (
	"bytes"
	"fmt"
	"regexp"
	"sort"
	"strconv"
	"strings"
	"testing"

	"github.com/go-gts/gts"
	"github.com/go-gts/gts/seqio"
	"pgregory.net/rapid"
)

type c03Case struct {
	L       int      `json:"len"`
	Op      string   `json:"op"` // delete, erase, slice
	I       int      `json:"i"`  // delete/erase: offset; slice: start as spelled (may be negative)
	N       int      `json:"n"`  // delete/erase: length; slice: end as spelled (may be negative)
	Feats   []Feat   `json:"feats"`
	GenBank bool     `json:"genbank"`
	Contig  bool     `json:"contig,omitempty"` // GenBank carrier: the record also holds a CONTIG line (as assembled records do)
	Circ    bool     `json:"circular,omitempty"`
	AA      bool     `json:"aa,omitempty"`   // molecule AA => counter word "residues"
	Refs    []string `json:"refs,omitempty"` // REFERENCE info strings
}

func (c c03Case) window() (s, e int, wrap bool) {
	s, e = c.I, c.N
	if s < 0 {
		s += c.L
	}
	if e < 0 {
		e += c.L
	}
	return s, e, e < s
}

func (c c03Case) counter() string {
	if c.AA {
		return "residues"
	}
	return "bases"
}

func (c c03Case) build() gts.Sequence {
	data := idBytes(0, c.L)
	if !c.GenBank {
		return gts.New(nil, featsToGts(c.Feats), data)
	}
	mol := gts.DNA
	if c.AA {
		mol = gts.AA
	}
	top := gts.Linear
	if c.Circ {
		top = gts.Circular
	}
	fields := seqio.GenBankFields{LocusName: "TEST", Molecule: mol, Topology: top, Division: "SYN",
		Date: seqio.Date{Year: 2020, Month: 1, Day: 1}, Definition: "d", Accession: "ACC", Version: "ACC.1"}
	for k, info := range c.Refs {
		fields.References = append(fields.References, seqio.Reference{Number: k + 1, Info: info, Title: fmt.Sprintf("t%d", k)})
	}
	if c.Contig {
		fields.Contig = seqio.Contig{Accession: "CTG000001.1", Region: gts.Segment{0, c.L}}
	}
	return seqio.GenBank{Fields: fields, Table: featsToGts(c.Feats), Origin: seqio.NewOrigin(data)}
}

// endWitness checks the cut-end rule on one end of a result location. want: the marker that must be
// present on the outward side of the first (front=true) or last surviving residue, unless a zero-length
// site sits directly outside that residue in the denotation.
func endWitnessed(ast Loc, front bool) bool {
	d := collapse(den(ast))
	if len(d) == 0 {
		return false
	}
	idx := -1
	if front {
		for k, e := range d {
			if !e.Site {
				idx = k
				break
			}
		}
		if idx > 0 {
			return true // a site precedes the first residue
		}
	} else {
		for k := len(d) - 1; k >= 0; k-- {
			if !d[k].Site {
				idx = k
				break
			}
		}
		if idx >= 0 && idx < len(d)-1 {
			return true
		}
	}
	if idx < 0 {
		return false
	}
	e := d[idx]
	if e.Amb {
		return true // an ambiguous span ("a.b") has no partial form in the location grammar; nothing can witness the cut
	}
	// outward side: 5' end of a forward element is its left, of a reverse element its right; 3' end mirrored
	right := e.Rev == front
	for _, m := range markers(ast) {
		if m.Pos == e.Pos && m.Right == right {
			return true
		}
	}
	return false
}

// cutEnds reports whether the 5' (front) / 3' (back) end of the feature lost residues: a non-empty prefix /
// suffix of the residue list is removed while something survives.
func cutEnds(orig Loc, removed func(p int) bool) (front, back bool) {
	res := residues(den(orig))
	if len(res) == 0 {
		return false, false
	}
	any := false
	for _, e := range res {
		if !removed(e.Pos) {
			any = true
		}
	}
	if !any {
		return false, false
	}
	return removed(res[0].Pos), removed(res[len(res)-1].Pos)
}

// runCutMarkers: markers that may appear because a run of consecutively denoted residues (which the join
// reducer merges into one range, whatever parts it came from) lost the residues next to a surviving one.
func runCutMarkers(d []Elem, removed func(int) bool, pm func(int) int) []Marker {
	var out []Marker
	adjacent := func(a, b Elem) bool { // b directly follows a in reading direction on the same strand
		if a.Rev != b.Rev || a.Amb || b.Amb {
			return false
		}
		if a.Rev {
			return b.Pos == a.Pos-1
		}
		return b.Pos == a.Pos+1
	}
	for k, e := range d {
		if removed(e.Pos) {
			continue
		}
		if k+1 < len(d) && adjacent(e, d[k+1]) && removed(d[k+1].Pos) {
			out = append(out, Marker{Pos: pm(e.Pos), Right: !e.Rev})
		}
		if k > 0 && adjacent(d[k-1], e) && removed(d[k-1].Pos) {
			out = append(out, Marker{Pos: pm(e.Pos), Right: e.Rev})
		}
	}
	return out
}

// checkCutFeature compares one surviving feature of Delete/Erase/Slice with the expectation exp (unreduced
// expected AST with maximal marking) and the cut-end rule.
func checkCutFeature(what string, got gts.Feature, want Feat, exp Loc, front, back bool, newLen int, skipMarkers bool, runMarks, keep []Marker) *Violation {
	origLoc := want.Loc
	if got.Key != want.Key {
		return viol("key", "%s: key changed from %q to %q", what, want.Key, got.Key)
	}
	if !propsEqual(got.Props, want.Quals) {
		return viol("qualifiers", "%s: qualifiers changed from %v to %v", what, want.Quals, got.Props)
	}
	ast, ok := fromGts(got.Loc)
	if !ok || !ast.wellFormed() {
		return viol("malformed", "%s: result location %#v is malformed", what, got.Loc)
	}
	if !ast.inBounds(newLen) {
		return viol("bounds", "%s: result location %s refers outside the new sequence of length %d", what, ast, newLen)
	}
	expDen, actDen := den(exp), den(ast)
	expRes, actRes := residues(expDen), residues(actDen)
	if !sameElems(expRes, actRes) {
		return viol("denotation", "%s: expected residues %s, got %s (location %s)", what, elemsString(expRes), elemsString(actRes), ast)
	}
	if len(expRes) == 0 && !hasResidue(den(origLoc)) {
		// a site-only feature: where it survives, its sites sit where the position map puts them
		if es, as := collapse(expDen), collapse(actDen); !sameElems(es, as) {
			return viol("site", "%s: site-only feature expected at %s, got %s (location %s)", what, elemsString(es), elemsString(as), ast)
		}
	}
	if len(expRes) == 0 {
		return nil
	}
	if skipMarkers {
		// a source feature is exempt from "a cut end becomes partial": slicing leaves (makes) it complete, wherever it
		// stands in the table. Markers the original carried on surviving residues may or may not be kept.
		had := map[Marker]bool{}
		for _, m := range keep {
			had[m] = true
		}
		for _, m := range markers(ast) {
			if !had[m] {
				return viol("source-marker", "%s: source feature carries the partial marker %s after slicing (location %s)", what, m, ast)
			}
		}
		return nil
	}
	act := outerMarkers(actDen, markers(ast))
	allowed := map[Marker]bool{}
	for _, m := range outerMarkers(expDen, markers(exp)) {
		allowed[m] = true
	}
	for _, m := range runMarks {
		allowed[m] = true
	}
	// the feature-level ends that lost residues may (must, see below) be marked on their outward side
	if front {
		e := expRes[0]
		allowed[Marker{Pos: e.Pos, Right: e.Rev}] = true
	}
	if back {
		e := expRes[len(expRes)-1]
		allowed[Marker{Pos: e.Pos, Right: !e.Rev}] = true
	}
	for _, m := range act {
		if !allowed[m] {
			return viol("marker-invented", "%s: partial marker %s appeared where nothing was cut off (location %s, allowed %s)", what, m, ast, markersString(outerMarkers(expDen, markers(exp))))
		}
	}
	// original markers on surviving residues must be kept
	have := map[Marker]bool{}
	for _, m := range act {
		have[m] = true
	}
	for _, m := range outerMarkers(expDen, keep) {
		if !have[m] {
			return viol("marker-lost", "%s: partial marker %s of the original was lost (location %s)", what, m, ast)
		}
	}
	if front && !endWitnessed(ast, true) {
		return viol("cut-end", "%s: residues were cut off the 5' end but the result %s shows neither a partial marker nor a site there", what, ast)
	}
	if back && !endWitnessed(ast, false) {
		return viol("cut-end", "%s: residues were cut off the 3' end but the result %s shows neither a partial marker nor a site there", what, ast)
	}
	return nil
}

var refInfoRe = regexp.MustCompile(`^\((bases|residues) (\d+ to \d+(?:; \d+ to \d+)*)\)$`)

// parseRefInfo is the harness's own reader of "(bases a to b; c to d)": returns 0-based half-open ranges.
func parseRefInfo(info, counter string) ([][2]int, bool) {
	m := refInfoRe.FindStringSubmatch(info)
	if m == nil || m[1] != counter {
		return nil, false
	}
	var out [][2]int
	for _, part := range strings.Split(m[2], "; ") {
		ab := strings.Split(part, " to ")
		a, _ := strconv.Atoi(ab[0])
		b, _ := strconv.Atoi(ab[1])
		out = append(out, [2]int{a - 1, b})
	}
	return out, true
}

func posSet(ranges [][2]int) []int {
	seen := map[int]bool{}
	for _, r := range ranges {
		for p := r[0]; p < r[1]; p++ {
			seen[p] = true
		}
	}
	out := []int{}
	for p := range seen {
		out = append(out, p)
	}
	sort.Ints(out)
	return out
}

func c03Check(c c03Case) *Violation {
	orig := idBytes(0, c.L)
	seq := c.build()
	var out gts.Sequence
	var wantBytes []byte
	var pm func(l Loc) Loc             // expected AST
	var removed func(p int) bool       // in original coordinates
	var winMap func(p int) (int, bool) // original position -> new position
	// frame in which abutting parts form runs: the original coordinates, or the rotated ones for a wrap-around window
	pre := func(l Loc) Loc { return l }
	var preRemoved func(p int) bool
	var preMap func(p int) int
	newLen := 0
	name := ""
	switch c.Op {
	case "delete", "erase":
		i, n := c.I, c.N
		name = fmt.Sprintf("%s(%d,%d) L=%d", c.Op, i, n, c.L)
		if pi := guard(func() {
			if c.Op == "delete" {
				out = gts.Delete(seq, i, n)
			} else {
				out = gts.Erase(seq, i, n)
			}
		}); pi != nil {
			return panicViolation(name, pi)
		}
		wantBytes = append(append([]byte{}, orig[:i]...), orig[i+n:]...)
		pm = func(l Loc) Loc { return deleteLoc(l, i, n) }
		removed = func(p int) bool { return p >= i && p < i+n }
		newLen = c.L - n
		preRemoved = removed
		preMap = func(p int) int { q, _ := deleteMap(i, n).res(p); return q }
	case "slice":
		s, e, wrap := c.window()
		name = fmt.Sprintf("slice(%d,%d)=[%d,%d) L=%d", c.I, c.N, s, e, c.L)
		if pi := guard(func() { out = gts.Slice(seq, c.I, c.N) }); pi != nil {
			return panicViolation(name, pi)
		}
		// the same record is sliced again (two other windows, then the same one): the first result is judged below after
		// these calls, and the repeated slice must equal it (a record serves any number of slices, e.g. gts extract)
		{
			var again gts.Sequence
			first := resultDump(out)
			if pi := guard(func() {
				gts.Slice(seq, 0, (c.L+1)/2)
				gts.Slice(seq, c.L/2, c.L)
				again = gts.Slice(seq, c.I, c.N)
			}); pi != nil {
				return panicViolation(name+" (sliced again)", pi)
			}
			if now := resultDump(out); now != first {
				return viol("result-later", "%s: the result changed when the same record was sliced again:\nwas %s\nnow %s", name, firstDiffContext(first, now), firstDiffContext(now, first))
			}
			if rep := resultDump(again); rep != first {
				return viol("result-later", "%s: slicing the same record a second time gives another result:\n1st %s\n2nd %s", name, firstDiffContext(first, rep), firstDiffContext(rep, first))
			}
		}
		if !wrap {
			wantBytes = append([]byte{}, orig[s:e]...)
			pm = func(l Loc) Loc { return sliceLoc(l, c.L, s, e) }
			removed = func(p int) bool { return p < s || p >= e }
			winMap = func(p int) (int, bool) { return p - s, p >= s && p < e }
			newLen = e - s
			preRemoved = removed
			preMap = func(p int) int { return p - s }
		} else {
			wantBytes = append(append([]byte{}, orig[s:]...), orig[:e]...)
			newLen = c.L - s + e
			pm = func(l Loc) Loc { return sliceLoc(rotateLoc(l, c.L, -s), c.L, 0, newLen) }
			removed = func(p int) bool { return p >= e && p < s }
			winMap = func(p int) (int, bool) { q := mod(p-s, c.L); return q, q < newLen }
			pre = func(l Loc) Loc { return rotateLoc(l, c.L, -s) }
			preRemoved = func(p int) bool { return p >= newLen }
			preMap = func(p int) int { return p }
		}
	}
	if !bytes.Equal(out.Bytes(), wantBytes) {
		return viol("bytes", "%s of %q = %q, want %q", name, orig, out.Bytes(), wantBytes)
	}
	if gts.Len(out) != len(wantBytes) {
		return viol("bytes", "%s: Len() = %d, want %d", name, gts.Len(out), len(wantBytes))
	}
	got := byLabel(out.Features())
	total := 0
	counted := map[string]bool{}
	for _, f := range c.Feats {
		d := den(f.Loc)
		res := residues(d)
		sites := hasSite(d)
		survivors := 0
		for _, e := range res {
			if !removed(e.Pos) {
				survivors++
			}
		}
		gg := got[f.label()]
		m := multOf(c.Feats, f) // a table may list a feature twice verbatim: both entries share one fate
		if !counted[f.label()] {
			counted[f.label()] = true
			total += len(gg)
		}
		if len(gg) != 0 && len(gg) != m {
			return viol("presence", "%s: feature %s present %d times, listed %d times", name, f.label(), len(gg), m)
		}
		what := fmt.Sprintf("%s feature %s %s", name, f.label(), f.Loc)
		// --- survival
		switch c.Op {
		case "delete":
			if len(gg) != m {
				return viol("survival", "%s: dropped by Delete", what)
			}
		case "erase":
			if f.Key == "source" && len(gg) != m {
				return viol("survival", "%s: source feature dropped by Erase", what)
			}
			// a feature made of sites only has no residue to lose: when every site lies strictly outside the erased
			// region (not even on its edges) the edit does not concern it and it stays
			if len(res) == 0 && sites && c.N > 0 {
				outside := true
				for _, e := range d {
					if e.Site && e.Pos >= c.I && e.Pos <= c.I+c.N {
						outside = false
					}
				}
				if outside && len(gg) != m {
					return viol("survival", "%s: a site-only feature away from the erased region [%d,%d] was dropped by Erase", what, c.I, c.I+c.N)
				}
			}
			if !sites && len(res) > 0 {
				if survivors == 0 && f.Key != "source" && len(gg) != 0 {
					return viol("survival", "%s: lost all its residues but was kept by Erase as %s", what, gg[0].Loc)
				}
				if survivors > 0 && len(gg) != m {
					return viol("survival", "%s: still has residues but was dropped by Erase", what)
				}
			}
		case "slice":
			// a feature made of sites only, all of them strictly inside a forward window, overlaps it and stays
			if len(res) == 0 && sites && newLen > 0 {
				if ws, we, wrap := c.window(); !wrap {
					inside := true
					for _, e := range d {
						if e.Site && !(e.Pos > ws && e.Pos < we) {
							inside = false
						}
					}
					if inside && len(gg) != m {
						return viol("survival", "%s: a site-only feature strictly inside the window [%d,%d) was dropped by Slice", what, ws, we)
					}
				}
			}
			// an empty window that lies strictly inside a part "overlaps" it in interval terms although no residue
			// is selected: the statement does not settle that case, so survival is asserted for non-empty windows only
			if !sites && len(res) > 0 && newLen > 0 {
				if survivors == 0 && len(gg) != 0 {
					return viol("survival", "%s: has no residue in the window but was kept as %s", what, gg[0].Loc)
				}
				if survivors > 0 && len(gg) != m {
					return viol("survival", "%s: has residues in the window but was dropped", what)
				}
			}
		}
		if len(gg) == 0 {
			continue
		}
		exp := pm(f.Loc)
		front, back := cutEnds(f.Loc, removed)
		skipMarkers := c.Op == "slice" && f.Key == "source"
		var keep []Marker
		for _, m := range markers(pre(f.Loc)) {
			if !preRemoved(m.Pos) {
				keep = append(keep, Marker{Pos: preMap(m.Pos), Right: m.Right})
			}
		}
		if v := checkCutFeature(what, gg[0], f, exp, front, back, newLen, skipMarkers, runCutMarkers(residues(den(pre(f.Loc))), preRemoved, preMap), keep); v != nil {
			return v
		}
		if c.Op == "delete" && len(res) > 0 && survivors == 0 && !sites {
			ast, _ := fromGts(gg[0].Loc)
			// every part collapses to the site at the cut (a multi-part or mixed-strand location may keep one per part)
			for _, e := range den(ast) {
				if !e.Site || e.Pos != c.I {
					return viol("emptied", "%s: lost all residues, want only the site at gap %d, got %s", what, c.I, ast)
				}
			}
		}
	}
	if total != len(out.Features()) {
		return viol("count", "%s: result table has %d features, %d accounted for", name, len(out.Features()), total)
	}
	// --- metadata
	if c.GenBank {
		gb, ok := out.(seqio.GenBank)
		if !ok {
			return viol("carrier", "%s: result is %T, not a GenBank record", name, out)
		}
		// the record as it is written: the length it declares is that of the residues it holds (whether the text reads
		// back is C01's matter: this property's tables hold locations outside the writable domain)
		if len(out.Bytes()) > 0 {
			var text string
			if pi := guard(func() { text = gb.String() }); pi != nil {
				return panicViolation(name+": writing the result", pi)
			}
			if m := locusRe.FindStringSubmatch(text); m == nil || m[1] != fmt.Sprint(len(out.Bytes())) {
				return viol("written-length", "%s: the result holds %d residues, its LOCUS line reads %q", name, len(out.Bytes()), clipStr(text, 80))
			}
		}
		if c.Op == "slice" {
			if gb.Fields.Topology != gts.Linear {
				return viol("topology", "%s: a slice must be linear, got %s", name, gb.Fields.Topology)
			}

			// reference clipping: per reference, the set of residues it covers
			var want [][]int // per surviving reference: new positions (or nil for verbatim infos)
			var verbatim []string
			for _, info := range c.Refs {
				rr, ok := parseRefInfo(info, c.counter())
				if !ok {
					want = append(want, nil)
					verbatim = append(verbatim, info)
					continue
				}
				ps := []int{}
				for _, p := range posSet(rr) {
					if p < 0 || p >= c.L {
						continue
					}
					if q, in := winMap(p); in {
						ps = append(ps, q)
					}
				}
				sort.Ints(ps)
				if len(ps) > 0 {
					want = append(want, ps)
					verbatim = append(verbatim, "")
				}
			}
			cmpRefs := func(name string, refs []seqio.Reference, want [][]int, verbatim []string, n int) *Violation {
				if len(refs) != len(want) {
					return viol("references", "%s: refs %q became %d references, want %d", name, c.Refs, len(refs), len(want))
				}
				for k, ref := range refs {
					if ref.Number != k+1 {
						return viol("references", "%s: reference %d numbered %d", name, k+1, ref.Number)
					}
					if want[k] == nil {
						if ref.Info != verbatim[k] {
							return viol("references", "%s: unparsable info %q changed to %q", name, verbatim[k], ref.Info)
						}
						continue
					}
					rr, ok := parseRefInfo(ref.Info, c.counter())
					if !ok {
						return viol("references", "%s: clipped info %q is not a base range list", name, ref.Info)
					}
					gotSet := posSet(rr)
					if fmt.Sprint(gotSet) != fmt.Sprint(want[k]) {
						return viol("references", "%s: refs %q: reference %d covers %v after slicing (%q), want %v", name, c.Refs, k+1, gotSet, ref.Info, want[k])
					}
					for _, r := range rr {
						if r[0] < 0 || r[1] > n || r[0] >= r[1] {
							return viol("references", "%s: clipped range %v outside the slice (info %q)", name, r, ref.Info)
						}
					}
				}
				return nil
			}
			if v := cmpRefs(name, gb.Fields.References, want, verbatim, newLen); v != nil {
				return v
			}
			// a slice of the slice: the record that came out (which now carries a REGION of its own) is cut again; its
			// references follow the second window in the same way
			for _, w := range [][2]int{{1, newLen}, {0, newLen - 1}, {newLen / 3, newLen - newLen/4}} {
				s2, e2 := w[0], w[1]
				if s2 < 0 || e2 <= s2 || e2 > newLen {
					continue
				}
				var again gts.Sequence
				if pi := guard(func() { again = gts.Slice(out, s2, e2) }); pi != nil {
					return panicViolation(fmt.Sprintf("%s, then Slice(%d,%d) of the result", name, s2, e2), pi)
				}
				name2 := fmt.Sprintf("%s, then Slice(%d,%d) of the result", name, s2, e2)
				if wantBytes := out.Bytes()[s2:e2]; !bytes.Equal(again.Bytes(), wantBytes) {
					return viol("bytes", "%s: residues %q, want %q", name2, again.Bytes(), wantBytes)
				}
				gb2, ok := again.(seqio.GenBank)
				if !ok {
					return viol("carrier", "%s: result is %T, not a GenBank record", name2, again)
				}
				var want2 [][]int
				var verb2 []string
				for k := range want {
					if want[k] == nil {
						want2, verb2 = append(want2, nil), append(verb2, verbatim[k])
						continue
					}
					ps := []int{}
					for _, q := range want[k] {
						if s2 <= q && q < e2 {
							ps = append(ps, q-s2)
						}
					}
					if len(ps) > 0 {
						want2, verb2 = append(want2, ps), append(verb2, "")
					}
				}
				if v := cmpRefs(name2, gb2.Fields.References, want2, verb2, e2-s2); v != nil {
					return v
				}
			}
		}
	}
	return nil
}

func c03Classify(c c03Case) (bool, []string) {
	labels := []string{"op:" + c.Op}
	var lo, hi int // removed region for delete/erase; for slice the kept window
	nt := false
	if c.Op == "slice" {
		s, e, wrap := c.window()
		lo, hi = s, e
		if wrap {
			labels = append(labels, "wrap-around")
		}
		if c.I < 0 || c.N < 0 {
			labels = append(labels, "negative-index")
		}
	} else {
		lo, hi = c.I, c.I+c.N
		if c.N == 0 {
			labels = append(labels, "n=0")
		}
		if c.N == c.L {
			labels = append(labels, "n=L")
		}
	}
	for _, f := range c.Feats {
		for _, x := range f.Loc.leaves() {
			a, b := x.A, x.B
			if x.K == "pt" {
				b = a + 1
			}
			if x.K == "bt" {
				b = a
			}
			switch {
			case lo < a && b < hi && x.K != "bt":
				labels = append(labels, "part-strictly-inside")
				nt = true
				if b-a == 1 && hi-lo >= 2 {
					labels = append(labels, "single-base-inside-long")
				}
			case a < lo && lo < b, a < hi && hi < b:
				labels = append(labels, "part-straddles-edge")
				nt = true
			case b == lo || a == hi || a == lo || b == hi:
				labels = append(labels, "part-abuts-edge")
				nt = true
			}
		}
		if f.Key == "source" {
			labels = append(labels, "source")
		}
		labels = append(labels, "kind:"+f.Loc.K)
	}
	if c.GenBank {
		labels = append(labels, "genbank")
		if len(c.Refs) > 0 {
			labels = append(labels, "refs")
		}
	}
	return nt, labels
}

func c03KF(c c03Case, v *Violation) []string {
	var sigs []string
	var pm func(l Loc) Loc
	wrap := false
	switch c.Op {
	case "delete", "erase":
		pm = func(l Loc) Loc { return deleteLoc(l, c.I, c.N) }
	default:
		s, e, w := c.window()
		wrap = w
		if !w {
			pm = func(l Loc) Loc { return sliceLoc(l, c.L, s, e) }
		} else {
			n := c.L - s + e
			pm = func(l Loc) Loc {
				r, _ := reduceSim(rotateLoc(l, c.L, -s))
				return sliceLoc(r, c.L, 0, n)
			}
		}
	}
	switch v.Kind {
	case "denotation":
		for _, f := range c.Feats {
			if pointAbsorbed(pm(f.Loc)) {
				sigs = append(sigs, "join-range-then-point-drops-point")
			}
			if wrap {
				s, _, _ := c.window()
				if pointAbsorbed(rotateLoc(f.Loc, c.L, -s)) {
					sigs = append(sigs, "join-range-then-point-drops-point")
				}
			}
		}
	case "cut-end":
		// the model's own emulation of the pinned reducer already loses the witness: the site left by a wholly
		// removed part is absorbed by the neighbouring part that abuts the cut
		for _, f := range c.Feats {
			red, _ := reduceSim(pm(f.Loc))
			// only the end that was really cut counts (an uncut end never has a witness and must not excuse anything)
			front, back := true, true
			if !wrap {
				lo, hi := c.I, c.I+c.N
				removed := func(p int) bool { return lo <= p && p < hi }
				if c.Op == "slice" {
					ws, we, _ := c.window()
					removed = func(p int) bool { return p < ws || p >= we }
				}
				front, back = cutEnds(f.Loc, removed)
			}
			if hasResidue(den(red)) && ((front && !endWitnessed(red, true)) || (back && !endWitnessed(red, false))) {
				sigs = append(sigs, "cut-site-absorbed-by-neighbour")
			}
		}
	}
	return sigs
}

var c03Prop = &Prop[c03Case]{ID: "C03", Check: c03Check, Classify: c03Classify, KF: c03KF}

func init() { registerReplay(c03Prop) }

func c03GenRefs(t *rapid.T, L int, counter string) []string {
	n := rapid.IntRange(0, 3).Draw(t, "nrefs")
	var out []string
	for k := 0; k < n; k++ {
		switch rapid.IntRange(0, 5).Draw(t, "refkind") {
		case 0:
			out = append(out, rapid.SampledFrom([]string{"", "(sites)", "(bases 1 to x)", "(" + counter + " 3)"}).Draw(t, "verbatim"))
		case 1:
			other := "residues"
			if counter == "residues" {
				other = "bases"
			}
			out = append(out, fmt.Sprintf("(%s 1 to %d)", other, maxInt(L, 1)))
		default:
			m := rapid.IntRange(1, 3).Draw(t, "nranges")
			parts := []string{}
			for j := 0; j < m; j++ {
				a := rapid.IntRange(1, maxInt(L, 1)).Draw(t, "a")
				b := rapid.IntRange(a, maxInt(L, 1)).Draw(t, "b")
				parts = append(parts, fmt.Sprintf("%d to %d", a, b))
			}
			out = append(out, fmt.Sprintf("(%s %s)", counter, strings.Join(parts, "; ")))
		}
	}
	return out
}

func c03Gen(t *rapid.T) c03Case {
	L := drawLen(t, 1, 14, "L")
	c := c03Case{L: L, Op: rapid.SampledFrom([]string{"delete", "erase", "slice", "slice"}).Draw(t, "op")}
	var hot []int
	if c.Op == "slice" {
		s := rapid.IntRange(0, L).Draw(t, "s")
		e := rapid.IntRange(0, L).Draw(t, "e")
		hot = append(hotAround(L, s, 0), hotAround(L, e, 0)...)
		c.I, c.N = s, e
		// negative spellings of the same positions
		if s > 0 && rapid.IntRange(0, 3).Draw(t, "negs") == 0 {
			c.I = s - L
		}
		if e > 0 && rapid.IntRange(0, 3).Draw(t, "nege") == 0 {
			c.N = e - L
		}
	} else {
		i := rapid.IntRange(0, L).Draw(t, "i")
		n := rapid.IntRange(0, L-i).Draw(t, "n")
		c.I, c.N = i, n
		hot = hotAround(L, i, n)
	}
	cfg := locCfg{L: L, Hot: hot, MaxDepth: 3, MaxParts: scopeParts(4), Ambig: true, Sites: true}
	c.Feats = addTwins(t, genFeats(t, cfg, drawCount(t, 0, 4, 9, "nfeat"), "f", true), "f")
	if c.Op == "slice" {
		if s, _, wrap := c.window(); wrap {
			for k := range c.Feats {
				fixed := uncrossAmbig(c.Feats[k].Loc, []int{s})
				c.Feats[k].Loc, _ = fromGts(toGts(fixed))
			}
		}
	}
	c.GenBank = rapid.Bool().Draw(t, "genbank")
	c.Contig = c.GenBank && rapid.IntRange(0, 2).Draw(t, "contig") == 0
	if c.GenBank {
		c.Circ = rapid.Bool().Draw(t, "circ")
		c.AA = rapid.IntRange(0, 3).Draw(t, "aa") == 0
		c.Refs = c03GenRefs(t, L, c.counter())
	}
	return c
}

func TestC03(t *testing.T) {
	st := newStats("C03")
	defer st.flush()
	rapidPart(t, c03Prop, st, "rapid", pick(40000, 300000), c03Gen)
	if t.Failed() {
		return
	}
	rapidLargePart(t, c03Prop, st, pick(1500, 20000), c03Gen)
	if t.Failed() {
		return
	}
	rapidTwinsPart(t, c03Prop, st, pick(3000, 30000), c03Gen)
	if t.Failed() {
		return
	}
	maxL := pick(4, 6)
	// magnitudes: sequences whose sizes sit on powers of two and multiples of 65536, one spanning feature
	eg := enumPart(t, c03Prop, st, "large-residues")
	for _, n := range magnitudeLensShort(thorough()) {
		span := []Feat{{Key: "gene", Loc: lrg(1, n-1), Quals: [][]string{{"label", "f0"}}}}
		for _, c := range []c03Case{
			{L: n, Op: "delete", I: n / 3, N: n / 3, Feats: span}, {L: n, Op: "erase", I: 0, N: n - 1, Feats: span}, {L: n, Op: "delete", I: n - 65536, N: 65536, Feats: span},
			{L: n, Op: "slice", I: 1, N: n - 1, Feats: span, GenBank: true}, {L: n, Op: "slice", I: n - 2, N: 2, Feats: span}, {L: n, Op: "slice", I: -65536, N: n, Feats: span},
		} {
			if c.I+c.N < 0 || (c.Op != "slice" && (c.I < 0 || c.I+c.N > n)) {
				continue
			}
			if !eg.try(c) {
				return
			}
		}
	}
	eg.done(true)
	// distant cuts: one range (plain and complemented) against deletions that begin 0..a residues upstream of it and
	// end near its boundaries, and deletions that begin near its boundaries and end 0..L-b residues downstream
	ed := enumPart(t, c03Prop, st, "distant-cuts")
	dL := pick(140, 320)
	for _, a := range []int{70, dL - 60} {
		b := a + 30
		for _, loc := range []Loc{lrg(a, b), lco(lrg(a, b))} {
			feats := []Feat{{Key: "gene", Loc: loc, Quals: [][]string{{"label", "f0"}}}}
			near := []int{a - 1, a, a + 1, a + 10, b - 1, b, b + 1}
			for _, op := range []string{"delete", "erase"} {
				for i := 0; i <= a; i++ {
					for _, j := range near {
						if !ed.try(c03Case{L: dL, Op: op, I: i, N: j - i, Feats: feats}) {
							return
						}
					}
				}
				for _, i := range near {
					for j := b; j <= dL; j++ {
						if !ed.try(c03Case{L: dL, Op: op, I: i, N: j - i, Feats: feats}) {
							return
						}
					}
				}
			}
		}
	}
	ed.done(true)
	e := enumPart(t, c03Prop, st, "exhaustive-small")
	for L := 1; L <= maxL; L++ {
		leaves := smallLocs(L, true, true)
		var locs []Loc
		for _, a := range leaves {
			locs = append(locs, a, lco(a))
		}
		for _, a := range leaves {
			for _, b := range leaves {
				if a.K == "am" || b.K == "am" {
					continue
				}
				locs = append(locs, ljn(a, b), lor(a, b), lco(ljn(a, b)))
			}
		}
		for _, raw := range locs {
			canon, _ := fromGts(toGts(raw))
			feats := []Feat{{Key: "gene", Loc: canon, Quals: [][]string{{"label", "f0"}}}}
			for i := 0; i <= L; i++ {
				for n := 0; i+n <= L; n++ {
					for _, op := range []string{"delete", "erase"} {
						if !e.try(c03Case{L: L, Op: op, I: i, N: n, Feats: feats}) {
							return
						}
					}
				}
				for j := 0; j <= L; j++ {
					if j < i && canon.hasKind("am") {
						continue // wrap-around window: ambiguous spans crossing the new origin are outside the domain
					}
					if !e.try(c03Case{L: L, Op: "slice", I: i, N: j, Feats: feats}) {
						return
					}
				}
			}
		}
	}
	e.done(true)
}
