package harness

// C12 — Repair re-assembles features fragmented by split/join, changes nothing else.

import (
	"bytes"
	"fmt"
	"github.com/go-gts/gts/seqio"
	"sort"
	"strings"
	"testing"

	"github.com/go-gts/gts"
	"pgregory.net/rapid"
)

type c12Case struct {
	Mode  string   `json:"mode"` // program (slice;...;concat;repair), table (arbitrary table straight into Repair)
	L     int      `json:"len"`
	Cuts  []int    `json:"cuts,omitempty"`
	Feats []Feat   `json:"feats"`
	Texts []string `json:"texts,omitempty"` // mode texts: one class whose locations are read from these texts (values the parser accepts and no constructor builds: empty and backward ranges)
	Pre   []int    `json:"pre,omitempty"`   // cli: other records before the record in the stream handed to `gts repair` ...
	Post  []int    `json:"post,omitempty"`  // ... and after it
}

type c12Feature struct {
	Key   string
	Props string
	Loc   Loc
}

func (f c12Feature) class() string { return f.Key + "\x00" + f.Props }

func c12FromGts(ff []gts.Feature) ([]c12Feature, bool) {
	out := make([]c12Feature, len(ff))
	for i, f := range ff {
		ast, ok := fromGts(f.Loc)
		if !ok || !ast.wellFormed() {
			return nil, false
		}
		out[i] = c12Feature{Key: f.Key, Props: string(mustJSON([][]string(f.Props))), Loc: ast}
	}
	return out, true
}

func stripMarkers(l Loc) Loc {
	return mapLeaves(l, func(x Loc) Loc {
		x.P5, x.P3 = false, false
		return x
	})
}

func (f c12Feature) String() string { return fmt.Sprintf("%s %s %s", f.Key, f.Loc, f.Props) }

func c12Multiset(ff []c12Feature, sourceLoose bool) []string {
	out := make([]string, len(ff))
	for i, f := range ff {
		l := f.Loc
		if sourceLoose && f.Key == "source" {
			l = stripMarkers(l)
		}
		out[i] = fmt.Sprintf("%s|%s|%s", f.Key, f.Props, l)
	}
	sort.Strings(out)
	return out
}

// mergeable: do f and g (same class) abut with a 3'-partial end of one meeting the 5'-partial start of the
// other (sequence coordinates: '>' on residue e-1 of f, '<' on residue e of g, same strand)? For source
// features any abutting ends count.
func c12Mergeable(f, g c12Feature) bool {
	// a cut that falls between two parts leaves the same zero-length site at the end of one fragment and at the
	// start of the next (the cut witness that C03 also accepts in place of a partial marker)
	lf, lg := f.Loc, g.Loc
	if (lf.K == "co") == (lg.K == "co") {
		if lf.K == "co" {
			lf, lg = lf.Parts[0], lg.Parts[0]
		}
		a, b := lf.leaves(), lg.leaves()
		if len(a) > 1 && len(b) > 1 && a[len(a)-1].K == "bt" && b[0].K == "bt" && a[len(a)-1].A <= b[0].A {
			return true
		}
	}
	// part-wise: some contiguous part of f ends, 3'-partial, exactly where a 5'-partial part of g on the same strand starts
	type sleaf struct {
		l   Loc
		rev bool
	}
	var collect func(l Loc, rev bool, out *[]sleaf)
	collect = func(l Loc, rev bool, out *[]sleaf) {
		if len(l.Parts) == 0 {
			*out = append(*out, sleaf{l, rev})
			return
		}
		for _, p := range l.Parts {
			collect(p, rev != (l.K == "co"), out)
		}
	}
	var xf, xg []sleaf
	collect(f.Loc, false, &xf)
	collect(g.Loc, false, &xg)
	for _, x := range xf {
		for _, y := range xg {
			if x.l.K != "rg" || y.l.K != "rg" || x.rev != y.rev || x.l.B != y.l.A {
				continue
			}
			if f.Key == "source" || (x.l.P3 && y.l.P5) {
				return true
			}
		}
	}
	return false
}

func coverOf(ff []c12Feature) map[string][]posStrand {
	acc := map[string][]Elem{}
	for _, f := range ff {
		acc[f.class()] = append(acc[f.class()], den(f.Loc)...)
	}
	out := map[string][]posStrand{}
	for k, d := range acc {
		out[k] = resSet(d)
	}
	return out
}

func c12Input(c c12Case) (gts.FeatureSlice, *Violation) {
	if c.Mode == "table" {
		return featsToGts(c.Feats), nil
	}
	orig := idBytes(0, c.L)
	seq := gts.New(nil, featsToGts(c.Feats), append([]byte(nil), orig...))
	cuts := append([]int{0}, c.Cuts...)
	cuts = append(cuts, c.L)
	sort.Ints(cuts)
	var pieces []gts.Sequence
	for k := 0; k+1 < len(cuts); k++ {
		var piece gts.Sequence
		a, b := cuts[k], cuts[k+1]
		if pi := guard(func() { piece = gts.Slice(seq, a, b) }); pi != nil {
			return nil, panicViolation(fmt.Sprintf("Slice(%d,%d)", a, b), pi)
		}
		cp, ok := deepCopySeq(piece)
		if !ok {
			return nil, viol("malformed", "Slice(%d,%d) produced a malformed location", a, b)
		}
		pieces = append(pieces, cp)
	}
	var cat gts.Sequence
	if pi := guard(func() { cat = gts.Concat(pieces...) }); pi != nil {
		return nil, panicViolation("Concat", pi)
	}
	cp, ok := deepCopySeq(cat)
	if !ok {
		return nil, viol("malformed", "Concat produced a malformed location")
	}
	return cp.Features(), nil
}

// c12Cli: `gts repair` on a stream of records. The command repairs the table of every record by itself: the output
// holds the same records in order, each with the residues it had and the table gts.Repair gives for its own table.
func c12Cli(c c12Case) *Violation {
	initPool()
	c.Mode = "program"
	table, v := c12Input(c)
	if v != nil {
		v.Kind = "setup-" + v.Kind
		return v
	}
	rec := func(name string, n, off int, ff gts.FeatureSlice) []byte {
		f := seqio.GenBankFields{LocusName: name, Molecule: gts.DNA, Topology: gts.Linear, Division: "SYN", Date: seqio.Date{Year: 2020, Month: 1, Day: 2}, Definition: name, Accession: name, Version: name + ".1"}
		return []byte(seqio.GenBank{Fields: f, Table: ff, Origin: seqio.NewOrigin(idBytes(off, n))}.String())
	}
	frag := func(a, b int, p5, p3 bool, label string) gts.Feature {
		return gts.NewFeature("gene", gts.PartialRange(a, b, gts.Partial{Partial5: p5, Partial3: p3}), gts.Props{{"gene", label}})
	}
	others := [][]byte{
		rec("OTHER0", c.L, 11, nil),
		rec("OTHER1", c.L+5, 23, gts.FeatureSlice{frag(0, 2, false, true, "x"), frag(2, 4, true, false, "x")}),
		rec("OTHER2", c.L, 31, gts.FeatureSlice{frag(1, 3, false, false, "y")}),
		rec("OTHER3", 1, 3, nil),
	}
	var stream []byte
	for _, k := range c.Pre {
		stream = append(stream, others[mod(k, len(others))]...)
	}
	stream = append(stream, rec("MAIN", c.L, 0, table)...)
	for _, k := range c.Post {
		stream = append(stream, others[mod(k, len(others))]...)
	}
	what := fmt.Sprintf("gts repair on a stream (others %v before, %v after the record cut at %v)", c.Pre, c.Post, c.Cuts)
	// what the command reads
	var ins []gts.Sequence
	{
		sc := seqio.NewAutoScanner(bytes.NewReader(stream))
		for sc.Scan() {
			ins = append(ins, sc.Value())
		}
		if sc.Err() != nil || len(ins) != 1+len(c.Pre)+len(c.Post) {
			skipCase("stream-unreadable")
			return nil
		}
	}
	env := newCliEnv()
	defer env.remove()
	res := env.run([]string{"repair", "--no-cache", "-F", "genbank"}, stream, false)
	if res.Exit != 0 {
		return viol("cli-exit", "%s: exit %d: %s", what, res.Exit, clipStr(res.Stderr, 300))
	}
	outs, errText := parseOutput(res.Out)
	if errText != "" {
		return viol("cli-output", "%s: output does not parse: %s", what, errText)
	}
	if len(outs) != len(ins) {
		return viol("cli-records", "%s: %d records in, %d out", what, len(ins), len(outs))
	}
	for i, in := range ins {
		var want []gts.Feature
		if pi := guard(func() { want = gts.Repair(in.Features()) }); pi != nil {
			return panicViolation("Repair", pi)
		}
		if !bytes.Equal(outs[i].bytes, in.Bytes()) {
			return viol("cli-residues", "%s: record %d has residues %q, was %q", what, i, outs[i].bytes, in.Bytes())
		}
		if g, w := featuresString(outs[i].feats), featuresString(want); g != w {
			return viol("cli-table", "%s: record %d comes out with the table %s; repairing its own table gives %s", what, i, g, w)
		}
	}
	return nil
}

// c12Texts: Repair on one class whose locations come from the location parser as they are - among them ranges that
// hold no residue ("11..10": start behind end by one, as the text form of an empty range is), which a file may contain
// and no constructor builds (ranges that run backwards by more are left out: nothing says what they denote). The
// harness has no model for what such values denote; what is asked is what the statement asks of every table: no
// panic, and repairing twice gives what repairing once gave.
func c12Texts(c c12Case) *Violation {
	var table gts.FeatureSlice
	for _, tx := range c.Texts {
		loc, err := gts.AsLocation(tx)
		if err != nil || loc == nil {
			skipCase("text-not-a-location")
			return nil
		}
		table = append(table, gts.NewFeature("misc_feature", loc, gts.Props{{"note", "r"}}))
	}
	var once, twice []gts.Feature
	if pi := guard(func() { once = gts.Repair(table) }); pi != nil {
		return panicViolation(fmt.Sprintf("Repair of a class with the locations %q", c.Texts), pi)
	}
	if pi := guard(func() { twice = gts.Repair(once) }); pi != nil {
		return panicViolation(fmt.Sprintf("Repair(Repair(t)) for the locations %q", c.Texts), pi)
	}
	if featuresString(once) != featuresString(twice) {
		return viol("idempotence", "Repair of the locations %q gives %s, repairing again gives %s", c.Texts, featuresString(once), featuresString(twice))
	}
	if len(once) > len(table) {
		return viol("invented", "Repair of %d features (%q) returns %d", len(table), c.Texts, len(once))
	}
	return nil
}

func c12Check(c c12Case) *Violation {
	if c.Mode == "cli" {
		return c12Cli(c)
	}
	if c.Mode == "texts" {
		return c12Texts(c)
	}
	table, v := c12Input(c)
	if v != nil {
		v.Kind = "setup-" + v.Kind
		return v
	}
	in, ok := c12FromGts(table)
	if !ok {
		return viol("setup-malformed", "input table is malformed")
	}
	snapshot := featuresString(table)
	var out, out2 []gts.Feature
	if pi := guard(func() { out = gts.Repair(table) }); pi != nil {
		return panicViolation(fmt.Sprintf("Repair(%s)", tableString(table)), pi)
	}
	if featuresString(table) != snapshot {
		return viol("purity", "Repair modified its argument")
	}
	res, ok := c12FromGts(out)
	if !ok {
		return viol("malformed", "Repair returned a malformed location: %s", featuresString(out))
	}
	what := fmt.Sprintf("Repair(%s) = %s", tableString(table), tableString(out))
	// --- idempotence
	if pi := guard(func() { out2 = gts.Repair(out) }); pi != nil {
		return panicViolation("Repair(Repair(t))", pi)
	}
	if featuresString(out2) != featuresString(out) {
		return viol("idempotence", "%s, repairing again gives %s", what, tableString(out2))
	}
	// --- safety (all tables)
	classIn, classOut := map[string][]c12Feature{}, map[string][]c12Feature{}
	for _, f := range in {
		classIn[f.class()] = append(classIn[f.class()], f)
	}
	for _, f := range res {
		classOut[f.class()] = append(classOut[f.class()], f)
	}
	anyMergeable := false
	for cls, members := range classIn {
		pairs := 0
		for i, f := range members {
			for j, g := range members {
				if i != j && c12Mergeable(f, g) {
					pairs++
				}
			}
		}
		if pairs > 0 {
			anyMergeable = true
		}
		if got := len(classOut[cls]); got < len(members)-pairs {
			return viol("merged-too-much", "%s: class %q had %d features with %d mergeable pairs, %d remain", what, strings.ReplaceAll(cls, "\x00", " "), len(members), pairs, got)
		}
		if got := len(classOut[cls]); got > len(members) {
			return viol("invented", "%s: class %q grew from %d to %d features", what, strings.ReplaceAll(cls, "\x00", " "), len(members), got)
		}
		if pairs == 0 {
			a, b := c12Multiset(members, false), c12Multiset(classOut[cls], false)
			if fmt.Sprint(a) != fmt.Sprint(b) {
				return viol("changed-unmergeable", "%s: class %q has no abutting partial ends but changed from %v to %v", what, strings.ReplaceAll(cls, "\x00", " "), a, b)
			}
		}
	}
	for cls := range classOut {
		if _, ok := classIn[cls]; !ok {
			return viol("invented", "%s: class %q appeared", what, cls)
		}
	}
	if !anyMergeable && featuresString(out) != snapshot {
		return viol("changed-unmergeable", "%s: nothing is mergeable but the table changed (order or content)", what)
	}
	ci, co := coverOf(in), coverOf(res)
	for cls, want := range ci {
		if fmt.Sprint(want) != fmt.Sprint(co[cls]) {
			return viol("cover", "%s: residues covered by class %q changed from %v to %v", what, strings.ReplaceAll(cls, "\x00", " "), want, co[cls])
		}
	}
	// --- restoration (program mode; precondition: table-unique classes)
	if c.Mode == "program" {
		origF := make([]c12Feature, len(c.Feats))
		for i, f := range c.Feats {
			origF[i] = c12Feature{Key: f.Key, Props: string(mustJSON(f.Quals)), Loc: f.Loc}
		}
		a, b := c12Multiset(origF, true), c12Multiset(res, true)
		if fmt.Sprint(a) != fmt.Sprint(b) {
			return viol("restoration", "cuts %v of L=%d: original %v, after slice/concat %s, repaired %v", c.Cuts, c.L, a, tableString(table), b)
		}
	}
	return nil
}

func c12Classify(c c12Case) (bool, []string) {
	labels := []string{"mode:" + c.Mode}
	nt := false
	if len(c.Pre)+len(c.Post) > 0 {
		labels = append(labels, "several-records")
	}
	classes := map[string]int{}
	for _, f := range c.Feats {
		classes[f.Key+fmt.Sprint(f.Quals)]++
		for _, x := range f.Loc.leaves() {
			for _, k := range c.Cuts {
				if x.K == "rg" && x.A < k && k < x.B {
					nt = true
					labels = append(labels, "cut-inside-feature")
				}
			}
		}
		labels = append(labels, "kind:"+f.Loc.K)
	}
	for _, n := range classes {
		if n >= 2 {
			nt = true
			labels = append(labels, "shared-class")
			break
		}
	}
	return nt, labels
}

func c12KF(c c12Case, v *Violation) []string {
	var sigs []string
	if strings.HasPrefix(v.Kind, "setup-") {
		return nil
	}
	if v.Kind == "restoration" {
		// a piece whose cut is not witnessed (C03's recorded finding: the site left by a wholly removed part is absorbed
		// by the abutting neighbour) cannot be recognised as a fragment
		cuts := append([]int{0}, c.Cuts...)
		cuts = append(cuts, c.L)
		sort.Ints(cuts)
		for _, f := range c.Feats {
			for k := 0; k+1 < len(cuts); k++ {
				a, b := cuts[k], cuts[k+1]
				removed := func(p int) bool { return p < a || p >= b }
				front, back := cutEnds(f.Loc, removed)
				red, _ := reduceSim(sliceLoc(f.Loc, c.L, a, b))
				if hasResidue(den(red)) && ((front && !endWitnessed(red, true)) || (back && !endWitnessed(red, false))) {
					sigs = append(sigs, "cut-site-absorbed-by-neighbour")
				}
			}
		}
	}
	if v.Kind == "restoration" {
		// a feature whose own parts overlap (a programmed frameshift: join(1..10,10..30)) cut at a position that two of
		// its parts contain: both parts are cut, the fragments hold two cut ends each, and Repair - which joins the last
		// part of one fragment to the first part of the next - does not put them back
		for _, f := range c.Feats {
			for _, k := range c.Cuts {
				n := 0
				for _, x := range f.Loc.leaves() {
					if (x.K == "rg" || x.K == "am") && x.A < k && k < x.B {
						n++
					}
				}
				if n >= 2 {
					sigs = append(sigs, "cut-through-self-overlap")
				}
			}
		}
	}
	return sigs
}

var c12Prop = &Prop[c12Case]{ID: "C12", Check: c12Check, Classify: c12Classify, KF: c12KF}

func init() { registerReplay(c12Prop) }

// c12Shape draws a location for the restoration clause: contiguous, joined, ordered, either strand, partial
// or complete; parts ascending and disjoint (the shape of real annotations), no sites or ambiguous spans.
func c12Shape(t *rapid.T, L int) Loc {
	n := 1
	kind := rapid.SampledFrom([]string{"rg", "rg", "pt", "jn", "jn", "or"}).Draw(t, "shape")
	if kind == "jn" || kind == "or" {
		n = rapid.IntRange(2, 3).Draw(t, "nparts")
	}
	if kind == "pt" {
		return lpt(rapid.IntRange(0, L-1).Draw(t, "p"))
	}
	// n disjoint non-abutting parts inside [0,L)
	bounds := rapid.SliceOfNDistinct(rapid.IntRange(0, L), 2*n, 2*n, func(x int) int { return x }).Draw(t, "bounds")
	sort.Ints(bounds)
	parts := []Loc{}
	for i := 0; i < n; i++ {
		a, b := bounds[2*i], bounds[2*i+1]
		if i > 0 && a == bounds[2*i-1] {
			a++
		}
		if a >= b {
			continue
		}
		parts = append(parts, lrg(a, b))
	}
	if len(parts) == 0 {
		parts = []Loc{lrg(0, 1)}
	}
	parts[0].P5 = rapid.IntRange(0, 3).Draw(t, "p5") == 0
	parts[len(parts)-1].P3 = rapid.IntRange(0, 3).Draw(t, "p3") == 0
	var l Loc
	switch {
	case len(parts) == 1:
		l = parts[0]
	case kind == "or":
		l = lor(parts...)
	default:
		l = ljn(parts...)
	}
	if rapid.IntRange(0, 2).Draw(t, "strand") == 0 {
		l = lco(l)
	}
	return l
}

func c12Gen(t *rapid.T) c12Case {
	L := drawLen(t, 4, 20, "L")
	mode := rapid.IntRange(0, 3).Draw(t, "mode")
	if mode == 3 {
		// program mode on deliberately shared classes (nested, overlapping, apart): restoration is not claimed there,
		// everything else (no panic, idempotence, cover, nothing invented or merged across classes) is
		n := rapid.IntRange(2, 5).Draw(t, "nfeat")
		c := c12Case{Mode: "program-shared", L: L}
		for i := 0; i < n; i++ {
			key := rapid.SampledFrom([]string{"repeat_region", "repeat_region", "gene", "source"}).Draw(t, "key")
			q := rapid.SampledFrom([][]string{{"note", "r"}, {"note", "r"}, {"note", "s"}}).Draw(t, "q")
			a := rapid.IntRange(0, L-1).Draw(t, "a")
			b := rapid.IntRange(a+1, L).Draw(t, "b")
			var l Loc = lrg(a, b)
			switch rapid.IntRange(0, 5).Draw(t, "shape") {
			case 0:
				l = c12Shape(t, L)
			case 1:
				l = lco(l)
			}
			if key == "source" {
				l = lrg(0, L)
			}
			canon, _ := fromGts(toGts(l))
			c.Feats = append(c.Feats, Feat{Key: key, Loc: canon, Quals: [][]string{append([]string(nil), q...)}})
		}
		nc := rapid.IntRange(1, minInt(4, L-1)).Draw(t, "ncuts")
		c.Cuts = rapid.SliceOfNDistinct(rapid.IntRange(1, L-1), nc, nc, func(x int) int { return x }).Draw(t, "cuts")
		return c
	}
	if mode > 0 {
		// program mode, unique classes
		n := rapid.IntRange(1, 6).Draw(t, "nfeat")
		c := c12Case{Mode: "program", L: L}
		for i := 0; i < n; i++ {
			key := rapid.SampledFrom([]string{"gene", "CDS", "misc_feature", "source"}).Draw(t, "key")
			l := c12Shape(t, L)
			if key == "source" {
				l = lrg(0, L)
			}
			if rapid.IntRange(0, 5).Draw(t, "frameshift") == 0 {
				// neighbouring parts that share their last / first bases (a programmed frameshift)
				inner := &l
				if inner.K == "co" {
					inner = &inner.Parts[0]
				}
				if inner.K == "jn" || inner.K == "or" {
					for pi := 1; pi < len(inner.Parts); pi++ {
						prev, cur := inner.Parts[pi-1], &inner.Parts[pi]
						if prev.K == "rg" && cur.K == "rg" {
							if a := prev.B - rapid.IntRange(1, 3).Draw(t, "overlap"); a > prev.A && a < cur.B {
								cur.A = a
							}
						}
					}
				}
			}
			canon, _ := fromGts(toGts(l))
			quals := [][]string{{"label", fmt.Sprintf("u%d", i)}}
			if rapid.IntRange(0, 2).Draw(t, "multi") == 0 {
				// unique only through a later value of a multi-valued qualifier
				quals = [][]string{{"note", "same"}, {"db_xref", "shared", fmt.Sprintf("id%d", i)}}
			}
			c.Feats = append(c.Feats, Feat{Key: key, Loc: canon, Quals: quals})
		}
		// a *set* of 1..3 cut positions (distinct, strictly inside the sequence: no empty pieces)
		nc := rapid.IntRange(1, 3).Draw(t, "ncuts")
		c.Cuts = rapid.SliceOfNDistinct(rapid.IntRange(1, L-1), nc, nc, func(x int) int { return x }).Draw(t, "cuts")
		return c
	}
	// table mode: deliberately shared classes (nested, overlapping, abutting, far apart), every location kind
	cfg := locCfg{L: L, Hot: []int{0, L / 2, L/2 + 1, L}, MaxDepth: 2, MaxParts: 3, Sites: true, MaxSpan: 6}
	n := rapid.IntRange(1, 6).Draw(t, "nfeat")
	crowd := genLarge && rapid.Bool().Draw(t, "crowd")
	if crowd {
		// one crowded class: 13..28 ranges of one key and qualifier over a few shared coordinates (equal spans that differ
		// only in their partial ends, abutting fragments, repeats)
		n = rapid.IntRange(13, 28).Draw(t, "ncrowd")
		cfg.Hot = []int{0, L / 4, L / 2, L/2 + 1, 3 * L / 4, L}
	}
	c := c12Case{Mode: "table", L: L}
	for i := 0; i < n; i++ {
		key := rapid.SampledFrom([]string{"gene", "gene", "CDS", "source"}).Draw(t, "key")
		q := rapid.SampledFrom([][]string{{"gene", "a"}, {"gene", "a"}, {"gene", "b"}, {"gene", "a", "x"}, {"gene", "a", "y"}, {"gene", "a x"}, {"gene", "a", "x", "y"}}).Draw(t, "q")
		qq := [][]string{append([]string(nil), q...)}
		if rapid.IntRange(0, 3).Draw(t, "lookalike") == 0 {
			qq = rapid.SampledFrom(c12LookAlikes).Draw(t, "qq")
		}
		if crowd && rapid.IntRange(0, 9).Draw(t, "incrowd") > 0 {
			key, q = "repeat_region", []string{"note", "r"}
		}
		var l Loc
		if crowd || rapid.Bool().Draw(t, "simple") {
			s := cfg.coord(t, 0, L-1, "s")
			e := cfg.coord(t, s+1, L, "e")
			l = lprg(s, e, rapid.Bool().Draw(t, "p5"), rapid.Bool().Draw(t, "p3"))
			if rapid.IntRange(0, 3).Draw(t, "co") == 0 {
				l = lco(l)
			}
		} else {
			l = genLoc(t, cfg)
		}
		if crowd {
			qq = [][]string{append([]string(nil), q...)}
		}
		c.Feats = append(c.Feats, Feat{Key: key, Loc: l, Quals: qq})
	}
	return c
}

// c12LookAlikes: qualifier lists that read alike when names and values are written one after the other (with '/', '=',
// blanks, commas, quotes or brackets between them) and are nevertheless different lists: features that carry two of
// them belong to different classes.
var c12LookAlikes = [][][]string{
	{{"note", "x/gene=y"}}, {{"note", "x"}, {"gene", "y"}}, {{"note", "x", "gene=y"}}, {{"note", "x/gene", "y"}}, {{"note", "x"}, {"gene=y"}},
	{{"note", "a,b"}}, {{"note", "a", "b"}}, {{"note", "a b"}}, {{"note", "[a b]"}}, {{"note", "a"}, {"note", "b"}}, {{"note", "a\" \"b"}},
	{{"note", "a"}, {"gene", "b"}}, {{"gene", "b"}, {"note", "a"}}, {{"note", "a gene b"}}, {{"note", "a"}, {"gene", "b"}, {"pseudo"}}, {{"note", "a"}, {"gene", "b"}, {"pseudo", ""}},
	{{"note", ""}}, {{"note"}}, {{"note", "", ""}},
}

// c12GenCrowd: one crowded class - 13..40 ranges of one key and qualifier over a few shared coordinates (equal spans
// that differ only in their partial ends, abutting fragments, repeats, either strand): the sizes at which a sort is
// no longer stable and a pairwise merge has many candidates.
func c12GenCrowd(t *rapid.T) c12Case {
	L := rapid.IntRange(8, 24).Draw(t, "L")
	hot := []int{0, L / 3, L / 2, L}
	n := rapid.IntRange(13, 40).Draw(t, "ncrowd")
	c := c12Case{Mode: "table", L: L}
	for i := 0; i < n; i++ {
		key, q := "repeat_region", []string{"note", "r"}
		if rapid.IntRange(0, 9).Draw(t, "stranger") == 0 {
			key, q = rapid.SampledFrom([]string{"gene", "source"}).Draw(t, "key"), []string{"gene", "a"}
		}
		s0 := rapid.SampledFrom(hot[:len(hot)-1]).Draw(t, "s")
		var ends []int
		for _, h := range hot {
			if h > s0 {
				ends = append(ends, h)
			}
		}
		e0 := rapid.SampledFrom(ends).Draw(t, "e")
		l := lprg(s0, e0, rapid.Bool().Draw(t, "p5"), rapid.Bool().Draw(t, "p3"))
		if rapid.IntRange(0, 3).Draw(t, "co") == 0 {
			l = lco(l)
		}
		c.Feats = append(c.Feats, Feat{Key: key, Loc: l, Quals: [][]string{q}})
	}
	return c
}

// c12GenCli: a cut-and-concatenated record among 0..4 other records, handed to `gts repair` as one stream.
func c12GenCli(t *rapid.T) c12Case {
	c := c12Gen(t)
	if c.Mode == "table" {
		c.Cuts = []int{rapid.IntRange(1, c.L-1).Draw(t, "cut")}
	}
	c.Mode = "cli"
	c.Pre = rapid.SliceOfN(rapid.IntRange(0, 3), 0, 2).Draw(t, "pre")
	c.Post = rapid.SliceOfN(rapid.IntRange(0, 3), 0, 2).Draw(t, "post")
	return c
}

func TestC12(t *testing.T) {
	st := newStats("C12")
	defer st.flush()
	rapidPart(t, c12Prop, st, "rapid", pick(30000, 200000), c12Gen)
	if t.Failed() {
		return
	}
	rapidPart(t, c12Prop, st, "rapid-crowded", pick(12000, 80000), c12GenCrowd)
	if t.Failed() {
		return
	}
	rapidPart(t, c12Prop, st, "rapid-cli", pick(200, 3000), c12GenCli)
	if t.Failed() {
		return
	}
	rapidLargePart(t, c12Prop, st, pick(1500, 20000), c12Gen)
	if t.Failed() {
		return
	}
	// locations as the parser hands them over: every pair and triple from a list that holds empty and backward ranges
	etx := enumPart(t, c12Prop, st, "parsed-degenerate-ranges")
	{
		texts := []string{"11..10", "11..>10", "<11..10", "<11..>10", "<11..20", "1..>10", "<21..30", "10..11", "5..5", "5..>5", "<6..6", "complement(11..>10)", "complement(<11..10)", "join(1..>10,11..10)", "10^11", "11"}
		for _, a := range texts {
			for _, b := range texts {
				if !etx.try(c12Case{Mode: "texts", L: 30, Texts: []string{a, b}}) {
					return
				}
				for _, c3 := range texts {
					if !etx.try(c12Case{Mode: "texts", L: 30, Texts: []string{a, b, c3}}) {
						return
					}
				}
			}
		}
	}
	etx.done(true)
	// crowded twins: a class of 14..45 members (beyond the size up to which sort routines are stable) that holds two
	// ranges the location order cannot tell apart (same span, one 5'-partial, one 3'-partial), a fragment that abuts
	// one of them, a pair that joins in the first pass, and fillers elsewhere; the table in many rotations of its order
	ect := enumPart(t, c12Prop, st, "crowded-twins")
	for nfill := 10; nfill <= 41; nfill += 1 {
		q := [][]string{{"note", "r"}}
		base := []Feat{
			{Key: "repeat_region", Loc: lprg(0, 10, false, true), Quals: q},
			{Key: "repeat_region", Loc: lprg(10, 20, false, true), Quals: q},
			{Key: "repeat_region", Loc: lprg(10, 20, true, false), Quals: q},
			{Key: "repeat_region", Loc: lprg(30, 35, false, true), Quals: q},
			{Key: "repeat_region", Loc: lprg(35, 40, true, false), Quals: q},
		}
		for i := 0; i < nfill; i++ {
			base = append(base, Feat{Key: "repeat_region", Loc: lrg(50+4*i, 52+4*i), Quals: q})
		}
		for rot := 0; rot < len(base); rot += 1 + len(base)/9 {
			tb := append(append([]Feat{}, base[rot:]...), base[:rot]...)
			if !ect.try(c12Case{Mode: "table", L: 60 + 4*nfill, Feats: tb}) {
				return
			}
			rev := make([]Feat, len(tb))
			for i := range tb {
				rev[len(tb)-1-i] = tb[i]
			}
			if !ect.try(c12Case{Mode: "table", L: 60 + 4*nfill, Feats: rev}) {
				return
			}
		}
	}
	ect.done(true)
	// look-alike classes: every ordered pair of look-alike qualifier lists on two abutting fragments (3'-partial meeting
	// 5'-partial) of one key, and on two abutting source features
	ela := enumPart(t, c12Prop, st, "look-alike-classes")
	for _, key := range []string{"gene", "source"} {
		for _, qa := range c12LookAlikes {
			for _, qb := range c12LookAlikes {
				c := c12Case{Mode: "table", L: 12, Feats: []Feat{{Key: key, Loc: lprg(2, 6, false, true), Quals: qa}, {Key: key, Loc: lprg(6, 10, true, false), Quals: qb}}}
				if !ela.try(c) {
					return
				}
			}
		}
	}
	ela.done(true)
	// exhaustive: one or two forward ranges (all partial combinations) of one class over L=6, straight into Repair;
	// and every single cut of every single range/point feature over L=6 through the program
	// exhaustive: two features of one class, one nested in (or overlapping) the other, every pair of cuts, both strands
	es := enumPart(t, c12Prop, st, "exhaustive-shared-class")
	for _, L := range []int{7} {
		for _, outer := range []Loc{lrg(0, L), lrg(1, L-1)} {
			for a := 0; a < L; a++ {
				for b := a + 1; b <= L; b++ {
					for k1 := 1; k1 < L; k1++ {
						for k2 := k1; k2 < L; k2++ {
							for _, co := range []bool{false, true} {
								o, in := outer, lrg(a, b)
								if co {
									o, in = lco(o), lco(in)
								}
								cuts := []int{k1, k2}
								if k1 == k2 {
									cuts = []int{k1}
								}
								q := [][]string{{"note", "r"}}
								if !es.try(c12Case{Mode: "program-shared", L: L, Cuts: cuts, Feats: []Feat{{Key: "repeat_region", Loc: o, Quals: q}, {Key: "repeat_region", Loc: in, Quals: q}}}) {
									return
								}
							}
						}
					}
				}
			}
		}
	}
	es.done(true)
	e := enumPart(t, c12Prop, st, "exhaustive-small")
	L := 6
	var ranges []Loc
	for s := 0; s < L; s++ {
		for x := s + 1; x <= L; x++ {
			for m := 0; m < 4; m++ {
				ranges = append(ranges, lprg(s, x, m&1 != 0, m&2 != 0))
			}
		}
	}
	for _, a := range ranges {
		for k := 1; k < L; k++ {
			for _, co := range []bool{false, true} {
				l := a
				if co {
					l = lco(a)
				}
				if !e.try(c12Case{Mode: "program", L: L, Cuts: []int{k}, Feats: []Feat{{Key: "gene", Loc: l, Quals: [][]string{{"label", "u0"}}}}}) {
					return
				}
			}
		}
		if a.B-a.A > 3 {
			continue
		}
		for _, b := range ranges {
			if b.B-b.A > 3 {
				continue
			}
			for _, key := range []string{"gene", "source"} {
				if !e.try(c12Case{Mode: "table", L: L, Feats: []Feat{{Key: key, Loc: a, Quals: [][]string{{"gene", "x"}}}, {Key: key, Loc: b, Quals: [][]string{{"gene", "x"}}}}}) {
					return
				}
			}
		}
	}
	e.done(true)
}
