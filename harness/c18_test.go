package harness

// C18 — Alphabet operations follow IUPAC semantics; search is sound and complete.

import (
	"bytes"
	"fmt"
	"strings"
	"sync"
	"testing"

	"github.com/go-gts/gts"
	"pgregory.net/rapid"
)

type c18Case struct {
	Mode  string `json:"mode"` // byte, search, match
	Byte  int    `json:"byte,omitempty"`
	Seq   string `json:"seq,omitempty"`
	Query string `json:"query,omitempty"`
	Len   int    `json:"len,omitempty"` // long: a generated sequence of this many letters (seed Byte)
}

// IUPAC base sets as bit masks A=1 C=2 G=4 T=8, written from the IUPAC definition.
var iupacSets = map[byte]int{
	'a': 1, 'c': 2, 'g': 4, 't': 8, 'u': 8,
	'r': 1 | 4, 'y': 2 | 8, 'k': 4 | 8, 'm': 1 | 2, 's': 2 | 4, 'w': 1 | 8,
	'b': 2 | 4 | 8, 'd': 1 | 4 | 8, 'h': 1 | 2 | 8, 'v': 1 | 2 | 4, 'n': 15,
}

var setLetter = map[int]byte{1: 'a', 2: 'c', 4: 'g', 8: 't', 5: 'r', 10: 'y', 12: 'k', 3: 'm', 6: 's', 9: 'w', 14: 'b', 13: 'd', 11: 'h', 7: 'v', 15: 'n'}

func lowerByte(b byte) byte {
	if b >= 'A' && b <= 'Z' {
		return b + 32
	}
	return b
}

func isUpper(b byte) bool { return b >= 'A' && b <= 'Z' }

// refComplement derives the complement of one byte from base-set complementation (A<->T, C<->G).
// rna: write U for the complement of A. Bytes outside the IUPAC alphabet are unchanged.
func refComplement(b byte, rna bool) byte {
	set, ok := iupacSets[lowerByte(b)]
	if !ok {
		return b
	}
	comp := 0
	if set&1 != 0 {
		comp |= 8
	}
	if set&8 != 0 {
		comp |= 1
	}
	if set&2 != 0 {
		comp |= 4
	}
	if set&4 != 0 {
		comp |= 2
	}
	out := setLetter[comp]
	if rna && comp == 8 {
		out = 'u'
	}
	if isUpper(b) {
		out -= 32
	}
	return out
}

// refMatchByte: does sequence byte s satisfy query byte q? Letters: base set containment; other query bytes
// match only themselves (case-insensitively, as both sides are lower-cased by the statement's "literal").
func refMatchByte(q, s byte) bool {
	q, s = lowerByte(q), lowerByte(s)
	qs, qok := iupacSets[q]
	if !qok {
		return q == s
	}
	ss, sok := iupacSets[s]
	if !sok {
		return false
	}
	return ss&^qs == 0
}

// c18Long: a sequence of c.Len letters (all IUPAC letters, both cases, a few other bytes, pseudo-random from c.Byte):
// Complement and Transcribe agree with the per-byte reference at every position, the double complement is the
// identity up to U->T, and a pattern planted across the last residues is found by Search.
func c18Long(c c18Case) *Violation {
	alpha := []byte(iupacLower + "ACGTURYKMSWBDHVN" + "-*x5")
	in := make([]byte, c.Len)
	x := uint64(c.Byte)*2654435761 + 17
	for i := range in {
		x = splitmix(x)
		in[i] = alpha[x%uint64(len(alpha))]
	}
	plant := []byte("gattacagattaca")
	if c.Len >= len(plant) {
		copy(in[c.Len-len(plant):], plant)
	}
	var comp, tr, cc []byte
	var hits []gts.Segment
	if pi := guard(func() {
		comp = gts.Complement(gts.New(nil, nil, append([]byte(nil), in...))).Bytes()
		tr = gts.Transcribe(gts.New(nil, nil, append([]byte(nil), in...))).Bytes()
		cc = gts.Complement(gts.New(nil, nil, append([]byte(nil), comp...))).Bytes()
		hits = gts.Search(gts.New(nil, nil, append([]byte(nil), in...)), gts.New(nil, nil, plant))
	}); pi != nil {
		return panicViolation(fmt.Sprintf("Complement/Transcribe/Search of %d letters", c.Len), pi)
	}
	if len(comp) != c.Len || len(tr) != c.Len || len(cc) != c.Len {
		return viol("length", "%d letters: lengths %d, %d, %d", c.Len, len(comp), len(tr), len(cc))
	}
	for i, b := range in {
		if want := refComplement(b, false); comp[i] != want {
			return viol("complement-table", "%d letters: Complement()[%d] = %q for %q, want %q", c.Len, i, comp[i], b, want)
		}
		if want := refComplement(b, true); tr[i] != want {
			return viol("transcribe-table", "%d letters: Transcribe()[%d] = %q for %q, want %q", c.Len, i, tr[i], b, want)
		}
		back := b
		switch b {
		case 'U':
			back = 'T'
		case 'u':
			back = 't'
		}
		if cc[i] != back {
			return viol("involution", "%d letters: Complement(Complement())[%d] = %q for %q", c.Len, i, cc[i], b)
		}
	}
	if c.Len >= len(plant) {
		found := false
		for _, h := range hits {
			if h.Head() == c.Len-len(plant) && h.Tail() == c.Len {
				found = true
			}
		}
		if !found {
			return viol("search", "%d letters: the pattern planted on the last %d residues is not among the %d hits", c.Len, len(plant), len(hits))
		}
	}
	return nil
}

// c18AfterOtherCalls: after unrelated sequences of other sizes and the other letter case were searched, the sequence of
// the first call still holds its bytes and the same call gives the same hits.
func c18AfterOtherCalls(name string, seq, orig, q []byte, first []gts.Segment) *Violation {
	var again []gts.Segment
	if pi := guard(func() {
		for _, n := range []int{len(orig), len(orig) / 2, 1, 3} {
			if n <= 0 {
				continue
			}
			other := bytes.Repeat([]byte("GATTACAN"), n/8+1)[:n]
			gts.Search(gts.New(nil, nil, other), gts.New(nil, nil, []byte("att")))
			gts.Match(gts.New(nil, nil, other), gts.New(nil, nil, []byte("ry")))
			gts.Search(gts.New(nil, nil, bytes.ToLower(other)), gts.New(nil, nil, []byte("TT")))
		}
		if name == "Search" {
			again = gts.Search(gts.New(nil, nil, seq), gts.New(nil, nil, q))
		} else {
			again = gts.Match(gts.New(nil, nil, seq), gts.New(nil, nil, q))
		}
	}); pi != nil {
		return panicViolation(name+" after other calls", pi)
	}
	if !bytes.Equal(seq, orig) {
		return viol("argument-modified", "%s(%q, %q): after other sequences were searched the sequence reads %q", name, orig, q, seq)
	}
	if fmt.Sprint(again) != fmt.Sprint(first) {
		return viol("result-later", "%s(%q, %q) gave %v and, after other sequences were searched, gives %v", name, orig, q, first, again)
	}
	return nil
}

// c18Concurrent: the operations are functions of their arguments: calls that overlap in time (eight goroutines, each
// with its own queries on its own copy of the sequence) return what the same calls return one after the other.
func c18Concurrent(c c18Case) *Violation {
	queries := strings.Split(c.Query, ",")
	seqBytes := []byte(c.Seq)
	type res struct{ match, search, comp string }
	call := func(q string) (r res, pi *PanicInfo) {
		pi = guard(func() {
			seq := gts.New(nil, nil, append([]byte(nil), seqBytes...))
			qs := gts.New(nil, nil, []byte(q))
			r.match = fmt.Sprint(gts.Match(seq, qs))
			r.search = fmt.Sprint(gts.Search(seq, qs))
			r.comp = string(gts.Complement(qs).Bytes())
		})
		return
	}
	want := map[string]res{}
	for _, q := range queries {
		r, pi := call(q)
		if pi != nil {
			skipCase("sequential-call-panicked")
			return nil
		}
		want[q] = r
	}
	var mu sync.Mutex
	var first *Violation
	var wg sync.WaitGroup
	for w := 0; w < 8; w++ {
		wg.Add(1)
		go func(w int) {
			defer wg.Done()
			for round := 0; round < 60; round++ {
				q := queries[(w+round*3)%len(queries)]
				r, pi := call(q)
				mu.Lock()
				if first == nil {
					if pi != nil {
						first = panicViolation(fmt.Sprintf("Match/Search/Complement(%q) called from eight goroutines at once", q), pi)
					} else if r != want[q] {
						first = viol("concurrent", "eight goroutines at once: query %q on %q gives match %s search %s complement %q; the same call alone gives match %s search %s complement %q", q, c.Seq, r.match, r.search, r.comp, want[q].match, want[q].search, want[q].comp)
					}
				}
				mu.Unlock()
			}
		}(w)
	}
	wg.Wait()
	return first
}

// c18Periodic: a long periodic sequence (Byte leading letters of Seq's period... then the period repeated up to Len
// letters) matched against Query: the reported segments match, ascend, do not overlap, and no match fits into any gap
// between them (the completeness clause, checked by brute force inside the gaps only).
func c18Periodic(c c18Case) *Violation {
	period := []byte(c.Seq)
	in := make([]byte, 0, c.Len)
	for i := 0; i < c.Byte; i++ {
		in = append(in, 'c')
	}
	for len(in) < c.Len {
		in = append(in, period...)
	}
	in = in[:c.Len]
	q := []byte(c.Query)
	var got []gts.Segment
	if pi := guard(func() { got = gts.Match(gts.New(nil, nil, append([]byte(nil), in...)), gts.New(nil, nil, q)) }); pi != nil {
		return panicViolation(fmt.Sprintf("Match of %d letters of period %q with %q", c.Len, c.Seq, c.Query), pi)
	}
	what := fmt.Sprintf("Match(%d x c + period %q up to %d letters, %q)", c.Byte, c.Seq, c.Len, c.Query)
	hit := func(i int) bool {
		if i < 0 || i+len(q) > len(in) {
			return false
		}
		for k := range q {
			if !refMatchByte(q[k], in[i+k]) {
				return false
			}
		}
		return true
	}
	prevEnd := 0
	for k, sg := range got {
		if sg[1]-sg[0] != len(q) || !hit(sg[0]) {
			return viol("match", "%s: segment %d = %v does not match", what, k, sg)
		}
		if sg[0] < prevEnd {
			return viol("match-overlap", "%s: segment %d = %v overlaps or precedes the segment reported before it (which ends at %d)", what, k, sg, prevEnd)
		}
		for i := prevEnd; i+len(q) <= sg[0]; i++ {
			if hit(i) {
				return viol("match-complete", "%s: a match at %d fits between the reported segments %d and %d", what, i, k-1, k)
			}
		}
		prevEnd = sg[1]
	}
	for i := prevEnd; i+len(q) <= len(in); i++ {
		if hit(i) {
			return viol("match-complete", "%s: a match at %d behind the last reported segment (%d segments)", what, i, len(got))
		}
	}
	return nil
}

func c18Check(c c18Case) *Violation {
	switch c.Mode {
	case "periodic":
		return c18Periodic(c)
	case "concurrent":
		return c18Concurrent(c)
	case "long":
		return c18Long(c)
	case "byte":
		b := byte(c.Byte)
		in := []byte{'x', b, b, 'A'}
		var comp, tr, cc []byte
		if pi := guard(func() {
			comp = gts.Complement(gts.New(nil, nil, append([]byte(nil), in...))).Bytes()
			tr = gts.Transcribe(gts.New(nil, nil, append([]byte(nil), in...))).Bytes()
			cc = gts.Complement(gts.New(nil, nil, append([]byte(nil), comp...))).Bytes()
		}); pi != nil {
			return panicViolation(fmt.Sprintf("Complement/Transcribe of byte %d", c.Byte), pi)
		}
		if len(comp) != len(in) || len(tr) != len(in) {
			return viol("length", "byte %d: length changed (%d, %d)", c.Byte, len(comp), len(tr))
		}
		if want := refComplement(b, false); comp[1] != want || comp[2] != want {
			return viol("complement-table", "Complement(%q) = %q, IUPAC base sets give %q", b, comp[1], want)
		}
		if want := refComplement(b, true); tr[1] != want {
			return viol("transcribe-table", "Transcribe(%q) = %q, want %q", b, tr[1], want)
		}
		if comp[0] != 'x' || comp[3] != 'T' || tr[3] != 'U' {
			return viol("complement-table", "context bytes changed: %q / %q", comp, tr)
		}
		wantBack := b
		switch b {
		case 'U':
			wantBack = 'T'
		case 'u':
			wantBack = 't'
		}
		if cc[1] != wantBack {
			return viol("involution", "Complement(Complement(%q)) = %q", b, cc[1])
		}
		return nil
	case "search":
		seq, q := []byte(c.Seq), []byte(c.Query)
		var got []gts.Segment
		if pi := guard(func() {
			got = gts.Search(gts.New(nil, nil, seq), gts.New(nil, nil, q))
			// the hits are judged after another search ran (a result must not live in memory the next call re-uses)
			gts.Search(gts.New(nil, nil, []byte("ttacgtacgtaa")), gts.New(nil, nil, []byte("acgt")))
			gts.Match(gts.New(nil, nil, []byte("ttacgtacgtaa")), gts.New(nil, nil, []byte("ry")))
		}); pi != nil {
			return panicViolation(fmt.Sprintf("Search(%q,%q)", seq, q), pi)
		}
		if v := c18AfterOtherCalls("Search", seq, []byte(c.Seq), q, got); v != nil {
			return v
		}
		var want []gts.Segment
		if len(q) > 0 {
			ls, lq := bytes.ToLower(seq), bytes.ToLower(q)
			for i := 0; i+len(q) <= len(seq); i++ {
				if bytes.Equal(ls[i:i+len(q)], lq) {
					want = append(want, gts.Segment{i, i + len(q)})
				}
			}
		}
		if fmt.Sprint(got) != fmt.Sprint(want) && !(len(got) == 0 && len(want) == 0) {
			return viol("search", "Search(%q, %q) = %v, all occurrences are %v", seq, q, got, want)
		}
		return nil
	case "match":
		seq, q := []byte(c.Seq), []byte(c.Query)
		var got []gts.Segment
		if pi := guard(func() {
			got = gts.Match(gts.New(nil, nil, seq), gts.New(nil, nil, q))
			gts.Match(gts.New(nil, nil, []byte("ttacgtacgtaa")), gts.New(nil, nil, []byte("ry")))
			gts.Search(gts.New(nil, nil, []byte("ttacgtacgtaa")), gts.New(nil, nil, []byte("acgt")))
		}); pi != nil {
			return panicViolation(fmt.Sprintf("Match(%q,%q)", seq, q), pi)
		}
		if v := c18AfterOtherCalls("Match", seq, []byte(c.Seq), q, got); v != nil {
			return v
		}
		hit := func(i int) bool {
			if i+len(q) > len(seq) {
				return false
			}
			for k := range q {
				if !refMatchByte(q[k], seq[i+k]) {
					return false
				}
			}
			return true
		}
		// soundness
		for _, s := range got {
			if s[1]-s[0] != len(q) || s[0] < 0 || s[1] > len(seq) || !hit(s[0]) {
				return viol("match-sound", "Match(%q, %q) reports %v which does not satisfy the query (all reported: %v)", seq, q, s, got)
			}
		}
		// completeness: leftmost non-overlapping scan
		var want []gts.Segment
		if len(q) > 0 {
			for i := 0; i+len(q) <= len(seq); {
				if hit(i) {
					want = append(want, gts.Segment{i, i + len(q)})
					i += len(q)
				} else {
					i++
				}
			}
		}
		if fmt.Sprint(got) != fmt.Sprint(want) && !(len(got) == 0 && len(want) == 0) {
			return viol("match-complete", "Match(%q, %q) = %v, the leftmost non-overlapping scan gives %v", seq, q, got, want)
		}
		return nil
	}
	return nil
}

func c18Classify(c c18Case) (bool, []string) {
	labels := []string{"mode:" + c.Mode}
	switch c.Mode {
	case "long":
		return c.Len > 0, append(labels, fmt.Sprintf("len>=2^%d", bitLen(c.Len)))
	case "byte":
		_, ok := iupacSets[lowerByte(byte(c.Byte))]
		if ok {
			labels = append(labels, "iupac-letter")
		}
		return ok, labels
	default:
		nt := len(c.Query) > 0 && len(c.Seq) >= len(c.Query)
		for _, b := range []byte(c.Query) {
			if _, ok := iupacSets[lowerByte(b)]; !ok {
				labels = append(labels, "non-alphabet-query-byte")
				break
			}
		}
		return nt, labels
	}
}

func c18KF(c c18Case, v *Violation) []string {
	var sigs []string
	if c.Mode == "match" && (v.Kind == "match-sound" || v.Kind == "match-complete") {
		if bytes.ContainsAny([]byte(c.Query), "kK") {
			sigs = append(sigs, "match-query-k-wrong-class")
		}
	}
	return sigs
}

var c18Prop = &Prop[c18Case]{ID: "C18", Check: c18Check, Classify: c18Classify, KF: c18KF}

func init() { registerReplay(c18Prop) }

const iupacLower = "acgturykmswbdhvn"

func c18Gen(t *rapid.T) c18Case {
	mode := rapid.SampledFrom([]string{"search", "match", "match"}).Draw(t, "mode")
	var seqAlpha, qAlpha string
	switch rapid.IntRange(0, 4).Draw(t, "alpha") {
	case 0:
		seqAlpha, qAlpha = "acgt", "acgt"
	case 1:
		seqAlpha, qAlpha = "acgtACGT", "acgtACGT"
	case 2:
		seqAlpha, qAlpha = iupacLower+"ACGTURYKMSWBDHVN", iupacLower[:15]+"ACGTURYKMSWBDHV" // no 'n' in queries (see DESIGN)
	case 3:
		seqAlpha, qAlpha = "acgt.*+-(x1 ", "acgt.*+()[]|?\\^$-{}x1 " // non-alphabet and regexp-syntax bytes
	default:
		// bytes that differ only in bit 0x20 without being letters, next to letters in both cases
		seqAlpha = "@`[{\\|]}^~_\x7faAtT"
		qAlpha = seqAlpha
	}
	gen := func(alpha string, lo, hi int, name string) string {
		n := rapid.IntRange(lo, hi).Draw(t, name+"len")
		b := make([]byte, n)
		for i := range b {
			b[i] = alpha[rapid.IntRange(0, len(alpha)-1).Draw(t, name)]
		}
		return string(b)
	}
	seq := gen(seqAlpha, 0, 12, "s")
	var q string
	if len(seq) > 0 && rapid.Bool().Draw(t, "fromseq") {
		// a query cut out of the sequence, so that hits exist
		i := rapid.IntRange(0, len(seq)-1).Draw(t, "qi")
		j := rapid.IntRange(i+1, minInt(len(seq), i+4)).Draw(t, "qj")
		q = seq[i:j]
		if mode == "match" && (qAlpha == iupacLower[:15]+"ACGTURYKMSWBDHV") {
			q = strings18NoN(q)
		}
	} else {
		q = gen(qAlpha, 0, 4, "q")
	}
	return c18Case{Mode: mode, Seq: seq, Query: q}
}

func strings18NoN(s string) string {
	b := []byte(s)
	for i, c := range b {
		if c == 'n' || c == 'N' {
			b[i] = 'a'
		}
	}
	return string(b)
}

func TestC18(t *testing.T) {
	st := newStats("C18")
	defer st.flush()
	e := enumPart(t, c18Prop, st, "all-256-bytes")
	for b := 0; b < 256; b++ {
		if !e.try(c18Case{Mode: "byte", Byte: b}) {
			return
		}
	}
	e.done(true)
	// magnitudes: lengths around powers of two up to 2^18 (thorough 2^21) and around multiples of 65536
	em := enumPart(t, c18Prop, st, "long-sequences")
	for _, n := range magnitudeLens(thorough()) {
		if !em.try(c18Case{Mode: "long", Len: n, Byte: n % 251}) {
			return
		}
	}
	em.done(true)
	// long queries: runs of one letter of 999..5000 copies (a spacer of N, a homopolymer) between two anchors, matched
	// against a sequence that holds the pattern once and a near miss once
	eq := enumPart(t, c18Prop, st, "long-queries")
	for _, run := range []int{999, 1000, 1001, 1500, 5000} {
		for _, letter := range []string{"n", "a", "r", "-"} {
			fill := strings.Repeat("a", run)
			q := "gc" + strings.Repeat(letter, run) + "tg"
			seq := "ttgc" + fill + "tgcc" + "gc" + fill[:run-1] + "ctg"
			if letter == "-" {
				seq = "ttgc" + strings.Repeat("-", run) + "tgcc"
			}
			if !eq.try(c18Case{Mode: "match", Seq: seq, Query: q}) || !eq.try(c18Case{Mode: "search", Seq: seq, Query: "gc" + fill[:run] + "tg"}) {
				return
			}
		}
	}
	eq.done(true)
	// anti-hash inputs: the Thue-Morse word over two bases and the same word with the bases swapped differ at every
	// position but collide under every polynomial fingerprint taken modulo a power of two; a search that trusts
	// fingerprints reports the one inside the other
	ea := enumPart(t, c18Prop, st, "anti-hash")
	for k := 6; k <= 11; k++ {
		tm := make([]byte, 1<<k)
		sw := make([]byte, 1<<k)
		for i := range tm {
			if bitsOn(i)%2 == 0 {
				tm[i], sw[i] = 'a', 'c'
			} else {
				tm[i], sw[i] = 'c', 'a'
			}
		}
		for _, pair := range [][2]string{{"ggtt" + string(tm) + "gt", string(sw)}, {"ggtt" + string(tm) + "gt", string(tm)}, {"tt" + string(tm) + string(sw) + "g", string(sw)}} {
			if !ea.try(c18Case{Mode: "search", Seq: pair[0], Query: pair[1]}) || !ea.try(c18Case{Mode: "match", Seq: pair[0], Query: pair[1]}) {
				return
			}
		}
	}
	ea.done(true)
	// dense overlapping hits: a repetitive sequence holds more occurrences of a self-overlapping query than any count
	// derived from len(seq)/len(query) allows for
	eo := enumPart(t, c18Prop, st, "dense-overlaps")
	for _, unit := range []string{"a", "ac", "acg", "aac"} {
		for _, n := range []int{8, 19, 20, 33, 64, 100, 257, pick(1000, 20000)} {
			seq := strings.Repeat(unit, n/len(unit)+1)[:n]
			for ql := 1; ql <= 7 && ql < n; ql++ {
				q := strings.Repeat(unit, 8)[:ql]
				if !eo.try(c18Case{Mode: "search", Seq: seq, Query: q}) || !eo.try(c18Case{Mode: "match", Seq: seq, Query: q}) {
					return
				}
			}
		}
	}
	eo.done(true)
	// every query letter x sequence letter of the IUPAC alphabet, both cases (query 'n' only against letters)
	e2 := enumPart(t, c18Prop, st, "all-letter-pairs")
	letters := []byte(iupacLower + "ACGTURYKMSWBDHVN")
	for _, q := range letters {
		for _, s := range letters {
			for _, ctx := range []string{"%c", "x%cx", "%c%c"} {
				seq := fmt.Sprintf(ctx, s, s)
				if ctx != "%c%c" {
					seq = fmt.Sprintf(ctx, s)
				}
				if (q == 'n' || q == 'N') && ctx == "x%cx" {
					continue // query N against a non-alphabet sequence byte is left open by the statement
				}
				if !e2.try(c18Case{Mode: "match", Seq: seq, Query: string(q)}) {
					return
				}
			}
			if !e2.try(c18Case{Mode: "search", Seq: string([]byte{s, s}), Query: string(q)}) {
				return
			}
		}
	}
	e2.done(true)
	// every pair of printable bytes (0x20..0x7f): a one-byte query against a two-byte sequence, search and match
	e2b := enumPart(t, c18Prop, st, "all-printable-pairs")
	inAlphabet := func(b byte) bool { return bytes.IndexByte([]byte(iupacLower+"ACGTURYKMSWBDHVN"), b) >= 0 }
	for q := byte(0x20); q <= 0x7f; q++ {
		for s := byte(0x20); s <= 0x7f; s++ {
			seq := string([]byte{s, 'c', s})
			if !e2b.try(c18Case{Mode: "search", Seq: seq, Query: string([]byte{q})}) {
				return
			}
			if (q == 'n' || q == 'N') && !inAlphabet(s) {
				continue // query N against a byte outside the alphabet is left open by the statement
			}
			if !e2b.try(c18Case{Mode: "match", Seq: seq, Query: string([]byte{q})}) {
				return
			}
		}
	}
	e2b.done(true)
	// long periodic sequences (homopolymers, tandem repeats, runs of n) just beyond 2^16, 2^20 and 2^21 letters, in
	// every phase of the period against the boundary
	eper := enumPart(t, c18Prop, st, "long-periodic")
	for _, size := range []int{1<<16 + 100, 1<<20 + 100, pick(1<<20+1000, 1<<21+100)} {
		for _, pq := range [][2]string{{"a", "aa"}, {"a", "aaa"}, {"n", "nn"}, {"ac", "acac"}, {"acg", "nnnn"}, {"a", "wwwww"}} {
			for lead := 0; lead < len(pq[1])+1; lead++ {
				if !eper.try(c18Case{Mode: "periodic", Seq: pq[0], Query: pq[1], Len: size, Byte: lead}) {
					return
				}
			}
		}
	}
	eper.done(false)
	// overlapping calls: eight goroutines with different queries on copies of one sequence
	ecc := enumPart(t, c18Prop, st, "concurrent-calls")
	for k, qs := range []string{"gcatgc,atg,nnn,ryk,acgt,ttga,cat,gc", "a,c,g,t,n,r,y,k", "acg,acgt,acgta,cgta,gtac,tacg,ac,gt", "aaaa,aaa,aa,a,tttt,ttt,tt,t"} {
		seq := strings.Repeat("acgtgcatgcatgacctgatcgatcgtagctaatgrykn", 3+k)
		for rep := 0; rep < pick(3, 20); rep++ {
			if !ecc.try(c18Case{Mode: "concurrent", Seq: seq, Query: qs, Byte: rep}) {
				return
			}
		}
	}
	ecc.done(false)
	// pattern syntax: queries that would mean something else if any of their bytes reached a regular-expression engine
	// unescaped (counted repetition, groups, classes, anchors, flags, escapes), alone and after / between letters;
	// against the text itself (the only thing they may match) and against what they would match as patterns
	ep := enumPart(t, c18Prop, st, "pattern-syntax")
	frags := []string{"{2}", "{1,}", "{1,2}", "{0}", "{3,2}", "{1001}", "{", "}", "{}", "{,2}", "(a)", "(", ")", "(?i)", "(?:a)", "(?P<x>a)", "[ac]", "[", "]", "[^a]", "[[:alpha:]]",
		"|", "*", "+", "?", "*?", "+?", ".", "^", "$", "\\", "\\d", "\\pL", "\\Q", "\\E", "\\x61", "\\b", "\\z", "-", "&", "~", "#", " ", "\t", "1", "2"}
	for _, f := range frags {
		for _, q := range []string{f, "a" + f, "a" + f + "c", f + "a", "n" + f, "ac" + f + f} {
			for _, seq := range []string{"gg" + q + "tt", q + q, "aaaacccc", "acacacgtn", "ggaactt", strings.ToUpper(q) + "x" + q} {
				if !ep.try(c18Case{Mode: "match", Seq: seq, Query: q}) {
					return
				}
				if !ep.try(c18Case{Mode: "search", Seq: seq, Query: q}) {
					return
				}
			}
		}
	}
	ep.done(true)
	// exhaustive small strings: sequences of length <=5 and queries of length <=3 over {a,c,G}
	e3 := enumPart(t, c18Prop, st, "exhaustive-small-strings")
	var all func(alpha string, n int) []string
	all = func(alpha string, n int) []string {
		if n == 0 {
			return []string{""}
		}
		var out []string
		for _, p := range all(alpha, n-1) {
			for _, ch := range alpha {
				out = append(out, p+string(ch))
			}
		}
		return out
	}
	var seqs, qs []string
	for n := 0; n <= pick(4, 5); n++ {
		seqs = append(seqs, all("acG", n)...)
	}
	for n := 0; n <= 3; n++ {
		qs = append(qs, all("aCr", n)...)
	}
	for _, s := range seqs {
		for _, q := range qs {
			if !e3.try(c18Case{Mode: "search", Seq: s, Query: q}) || !e3.try(c18Case{Mode: "match", Seq: s, Query: q}) {
				return
			}
		}
	}
	e3.done(true)
	rapidPart(t, c18Prop, st, "rapid", pick(30000, 250000), c18Gen)
}

func bitsOn(x int) int {
	n := 0
	for ; x > 0; x &= x - 1 {
		n++
	}
	return n
}
