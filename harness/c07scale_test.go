package harness

// C07 — "terminates in time proportional to the input": growth-rate oracle.
//
// For every input shape S(n) (a family of inputs whose size grows linearly with n) the parser is timed on S(n),
// S(4n) and S(16n). Time proportional to the input means t(16n)/t(n) ≈ 16 and t(16n)/t(4n) ≈ 4; a quadratic
// path gives 256 and 16. A case is a violation only when, after an exclusive re-measurement with more
// repetitions, t(16n)/t(n) > 100 AND t(16n)/t(4n) > 6 AND t(16n) is large enough to be measured (>= 30 ms):
// a factor 6 (resp. 1.5) beyond linear on minimum-of-k timings, which scheduling noise on a loaded machine does
// not produce (noise inflates single runs, the minimum of k runs of the *small* input is what would have to be
// inflated five-fold against the big one). Everything else (too fast to measure, ratio in between) is "held" or
// "inconclusive", never a violation.

import (
	"bytes"
	"fmt"
	"math"
	"runtime"
	"strings"
	"sync"
	"time"

	"github.com/go-gts/gts"
	"github.com/go-gts/gts/seqio"
	"github.com/go-pars/pars"
)

const gbLocus = "LOCUS       X                         10 bp    DNA     linear   SYN 01-JAN-2020\n"
const gbTail = "ORIGIN      \n        1 acgtacgtac\n//\n"
const gbFeatHdr = "FEATURES             Location/Qualifiers\n"
const qIndent = "                     "

type c07Shape struct {
	Target string // scan, table, location, locator, modifier, selector, date
	Base   int    // n of the smallest run
	Valid  bool   // the smallest input is expected to be accepted (self-check of the shape, reported as a label)
	Build  func(n int) []byte
}

func rep(n int, f func(i int) string) string {
	var b strings.Builder
	for i := 0; i < n; i++ {
		b.WriteString(f(i))
	}
	return b.String()
}

func joinOf(n int, sep string, f func(i int) string) string {
	parts := make([]string, n)
	for i := range parts {
		parts[i] = f(i)
	}
	return strings.Join(parts, sep)
}

func wrapLoc(loc string, indent string, width int) string {
	// INSDC wraps long locations at commas
	var b strings.Builder
	col := 0
	for _, p := range strings.SplitAfter(loc, ",") {
		if col+len(p) > width && col > 0 {
			b.WriteString("\n" + indent)
			col = 0
		}
		b.WriteString(p)
		col += len(p)
	}
	return b.String()
}

func originBlock(n int) string {
	var b strings.Builder
	b.WriteString("ORIGIN      \n")
	const acgt = "acgtacgtac"
	for i := 0; i < n; i += 60 {
		fmt.Fprintf(&b, "%9d", i+1)
		for j := i; j < n && j < i+60; j += 10 {
			k := minInt(10, n-j)
			b.WriteString(" " + acgt[:k])
		}
		b.WriteString("\n")
	}
	b.WriteString("//\n")
	return b.String()
}

func locusN(n int) string {
	return fmt.Sprintf("LOCUS       X                 %10d bp    DNA     linear   SYN 01-JAN-2020\n", n)
}

var c07Shapes = map[string]c07Shape{
	// --- whole-stream shapes -------------------------------------------------------------------------
	"records": {"scan", 8, true, func(n int) []byte { return bytes.Repeat(corpusFile("NC_001422_part.gb"), n) }},
	"records-crlf": {"scan", 8, true, func(n int) []byte {
		return []byte(crlf(string(bytes.Repeat(corpusFile("NC_001422_part.gb"), n))))
	}},
	"features": {"scan", 400, true, func(n int) []byte {
		return []byte(gbLocus + gbFeatHdr + rep(n, func(i int) string {
			return fmt.Sprintf("     gene            %d..%d\n%s/gene=\"a%d\"\n", 1+i%5, 6+i%5, qIndent, i)
		}) + gbTail)
	}},
	"qualifiers": {"scan", 600, true, func(n int) []byte {
		return []byte(gbLocus + gbFeatHdr + "     gene            1..5\n" + rep(n, func(i int) string {
			return fmt.Sprintf("%s/note=\"value %d\"\n", qIndent, i)
		}) + gbTail)
	}},
	"qualifiers-distinct-names": {"scan", 600, true, func(n int) []byte {
		// every qualifier of the feature has a name of its own that the reader has not met before
		return []byte(gbLocus + gbFeatHdr + "     gene            1..5\n" + rep(n, func(i int) string {
			switch i % 3 {
			case 0:
				return fmt.Sprintf("%s/xq_%d=\"v\"\n", qIndent, i)
			case 1:
				return fmt.Sprintf("%s/xl_%d=%d\n", qIndent, i, i)
			}
			return fmt.Sprintf("%s/xt_%d\n", qIndent, i)
		}) + gbTail)
	}},
	"qualifiers-mixed": {"scan", 500, true, func(n int) []byte {
		return []byte(gbLocus + gbFeatHdr + "     CDS             1..5\n" + rep(n, func(i int) string {
			switch i % 4 {
			case 0:
				return qIndent + "/pseudo\n"
			case 1:
				return qIndent + "/codon_start=1\n"
			case 2:
				return qIndent + "/transl_except=(pos:1..3,aa:Met)\n"
			}
			return fmt.Sprintf("%s/db_xref=\"X:%d\"\n", qIndent, i)
		}) + gbTail)
	}},
	"quoted-value-lines": {"scan", 400, true, func(n int) []byte {
		return []byte(gbLocus + gbFeatHdr + "     gene            1..5\n" + qIndent + "/note=\"" + joinOf(n, "\n"+qIndent, func(i int) string {
			return "abcdefghij klmnopqrst uvwxyz abcdefghij klmnopqrst uvwxyz"
		}) + "\"\n" + gbTail)
	}},
	"quoted-value-doubled-quotes": {"scan", 4000, true, func(n int) []byte {
		return []byte(gbLocus + gbFeatHdr + "     gene            1..5\n" + qIndent + "/note=\"" + strings.Repeat("a\"\"b ", n) + "\"\n" + gbTail)
	}},
	"quoted-value-one-line": {"scan", 20000, true, func(n int) []byte {
		return []byte(gbLocus + gbFeatHdr + "     gene            1..5\n" + qIndent + "/note=\"" + strings.Repeat("x", n) + "\"\n" + gbTail)
	}},
	"quoted-value-unterminated": {"scan", 400, false, func(n int) []byte {
		return []byte(gbLocus + gbFeatHdr + "     gene            1..5\n" + qIndent + "/note=\"" + joinOf(n, "\n"+qIndent, func(i int) string {
			return "abcdefghij klmnopqrst uvwxyz abcdefghij klmnopqrst uvwxyz"
		}) + "\n" + gbTail)
	}},
	"literal-value-lines": {"scan", 400, true, func(n int) []byte {
		return []byte(gbLocus + gbFeatHdr + "     CDS             1..5\n" + qIndent + "/transl_except=(pos:1..3," + joinOf(n, "\n"+qIndent, func(i int) string {
			return "aa:Metaa:Metaa:Metaa:Metaa:Metaa:Metaa:Metaa:Met"
		}) + ")\n" + gbTail)
	}},
	"translation": {"scan", 400, true, func(n int) []byte {
		return []byte(gbLocus + gbFeatHdr + "     CDS             1..5\n" + qIndent + "/translation=\"" + joinOf(n, "\n"+qIndent, func(i int) string {
			return "MKLVINGKTLKGEITVEAPDAATAIKDALHAAGYDLSVEEIRIVHKEGLLT"
		}) + "\"\n" + gbTail)
	}},
	"feature-join-ranges": {"scan", 300, true, func(n int) []byte {
		loc := "join(" + joinOf(n, ",", func(i int) string { return fmt.Sprintf("%d..%d", 3*i+1, 3*i+2) }) + ")"
		return []byte(gbLocus + gbFeatHdr + "     gene            " + wrapLoc(loc, qIndent, 58) + "\n" + gbTail)
	}},
	"comment": {"scan", 400, true, func(n int) []byte {
		return []byte(gbLocus + "COMMENT     " + joinOf(n, "\n            ", func(i int) string {
			return "abcdefghij klmnopqrst uvwxyz abcdefghij klmnopqrst uvwxyz"
		}) + "\n" + gbTail)
	}},
	"comments-many": {"scan", 400, true, func(n int) []byte {
		return []byte(gbLocus + rep(n, func(i int) string { return fmt.Sprintf("COMMENT     remark number %d of many\n", i) }) + gbTail)
	}},
	"definition": {"scan", 400, true, func(n int) []byte {
		return []byte(gbLocus + "DEFINITION  " + joinOf(n, "\n            ", func(i int) string {
			return "abcdefghij klmnopqrst uvwxyz abcdefghij klmnopqrst uvwxyz"
		}) + ".\n" + gbTail)
	}},
	"keywords": {"scan", 400, true, func(n int) []byte {
		return []byte(gbLocus + "KEYWORDS    " + joinOf(n, "\n            ", func(i int) string {
			return fmt.Sprintf("kw%d; other%d; third%d;", i, i, i)
		}) + " last.\n" + gbTail)
	}},
	"taxonomy": {"scan", 400, true, func(n int) []byte {
		return []byte(gbLocus + "SOURCE      some organism\n  ORGANISM  some organism\n            " + joinOf(n, "\n            ", func(i int) string {
			return fmt.Sprintf("Taxon%d; Clade%d; Group%d;", i, i, i)
		}) + " Last.\n" + gbTail)
	}},
	"references": {"scan", 200, true, func(n int) []byte {
		return []byte(gbLocus + rep(n, func(i int) string {
			return fmt.Sprintf("REFERENCE   %d  (bases 1 to 10)\n  AUTHORS   A,B. and C,D.\n  TITLE     A title\n  JOURNAL   J. Test 1 (2), 3-4 (2020)\n   PUBMED   %d\n", i%900+1, i)
		}) + gbTail)
	}},
	"reference-long-authors": {"scan", 400, true, func(n int) []byte {
		return []byte(gbLocus + "REFERENCE   1  (bases 1 to 10)\n  AUTHORS   " + joinOf(n, "\n            ", func(i int) string {
			return fmt.Sprintf("Author%d,A.B., Other%d,C.D.,", i, i)
		}) + " and Last,Z.\n  TITLE     T\n" + gbTail)
	}},
	"dblink": {"scan", 600, true, func(n int) []byte {
		return []byte(gbLocus + "DBLINK      " + joinOf(n, "\n            ", func(i int) string { return fmt.Sprintf("BioProject: PRJNA%d", i) }) + "\n" + gbTail)
	}},
	"extra-fields": {"scan", 600, true, func(n int) []byte {
		return []byte(gbLocus + rep(n, func(i int) string { return fmt.Sprintf("XFIELD%03d   value %d\n", i%1000, i) }) + gbTail)
	}},
	"contig": {"scan", 600, true, func(n int) []byte {
		loc := "join(" + joinOf(n, ",", func(i int) string { return fmt.Sprintf("AB%06d.1:1..%d", i, 100+i) }) + ")"
		return []byte(gbLocus + "CONTIG      " + wrapLoc(loc, "            ", 66) + "\n//\n")
	}},
	"origin": {"scan", 30000, true, func(n int) []byte { return []byte(locusN(n) + originBlock(n)) }},
	"origin-irregular": {"scan", 30000, true, func(n int) []byte {
		// a last line that is not a full 60 plus one uneven group forces the line-by-line path
		s := originBlock(n)
		return []byte(locusN(n) + s)
	}},
	"origin-bad-char-late": {"scan", 30000, false, func(n int) []byte {
		s := originBlock(n)
		i := len(s) - 20
		return []byte(locusN(n) + s[:i] + "\t" + s[i+1:])
	}},
	"origin-uneven-groups": {"scan", 3000, false, func(n int) []byte {
		return []byte(locusN(n*7) + "ORIGIN      \n" + rep(n, func(i int) string { return fmt.Sprintf("%9d acgtacg\n", i*7+1) }) + "//\n")
	}},
	"no-terminator": {"scan", 400, false, func(n int) []byte {
		return []byte(gbLocus + gbFeatHdr + rep(n, func(i int) string {
			return fmt.Sprintf("     gene            %d..%d\n%s/gene=\"a%d\"\n", 1+i%5, 6+i%5, qIndent, i)
		}))
	}},
	"blank-lines": {"scan", 20000, false, func(n int) []byte { return bytes.Repeat([]byte("\n"), n) }},
	"space-lines": {"scan", 2000, false, func(n int) []byte { return bytes.Repeat([]byte("            \n"), n) }},
	"locus-lines": {"scan", 400, false, func(n int) []byte { return bytes.Repeat([]byte(gbLocus), n) }},
	"one-long-line": {"scan", 30000, false, func(n int) []byte {
		return append([]byte("LOCUS       "), bytes.Repeat([]byte("A"), n)...)
	}},
	"garbage": {"scan", 30000, false, func(n int) []byte {
		g := make([]byte, n)
		x := uint64(n)
		for i := range g {
			x = splitmix(x)
			g[i] = byte(x)
		}
		return g
	}},
	"fasta-records": {"scan", 1500, true, func(n int) []byte {
		return []byte(rep(n, func(i int) string { return fmt.Sprintf(">s%d some description\nacgtacgtacgt\n", i) }))
	}},
	"fasta-lines": {"scan", 500, true, func(n int) []byte {
		return []byte(">s\n" + strings.Repeat("acgtacgtacgtacgtacgtacgtacgtacgtacgtacgtacgtacgtacgtacgtacgtacgtacgtac\n", n))
	}},
	"fasta-lines-crlf": {"scan", 500, true, func(n int) []byte {
		return []byte(">s\r\n" + strings.Repeat("acgtacgtacgtacgtacgtacgtacgtacgtacgtacgtacgtacgtacgtacgtacgtacgtacgtac\r\n", n))
	}},
	"fasta-one-line":      {"scan", 30000, true, func(n int) []byte { return []byte(">s\n" + strings.Repeat("acgt", n/4) + "\n") }},
	"fasta-description":   {"scan", 30000, true, func(n int) []byte { return []byte(">" + strings.Repeat("d", n) + "\nacgt\n") }},
	"fasta-empty-records": {"scan", 5000, true, func(n int) []byte { return []byte(strings.Repeat(">s\n", n)) }},
	"fasta-blank-lines":   {"scan", 20000, true, func(n int) []byte { return []byte(">s\nacgt" + strings.Repeat("\n", n)) }},
	// --- feature table parser ------------------------------------------------------------------------
	"table-features": {"table", 600, true, func(n int) []byte {
		return []byte(rep(n, func(i int) string {
			return fmt.Sprintf("gene            %d..%d\n                /gene=\"a%d\"\n", 1+i%5, 6+i%5, i)
		}))
	}},
	"table-quoted-lines": {"table", 400, true, func(n int) []byte {
		return []byte("gene            1..5\n                /note=\"" + joinOf(n, "\n                ", func(i int) string {
			return "abcdefghij klmnopqrst uvwxyz abcdefghij klmnopqrst uvwxyz"
		}) + "\"\n")
	}},
	// --- scalar parsers ------------------------------------------------------------------------------
	"loc-join-ranges": {"location", 300, true, func(n int) []byte {
		return []byte("join(" + joinOf(n, ",", func(i int) string { return fmt.Sprintf("%d..%d", 3*i+1, 3*i+2) }) + ")")
	}},
	"loc-join-abutting": {"location", 300, true, func(n int) []byte {
		return []byte("join(" + joinOf(n, ",", func(i int) string { return fmt.Sprintf("%d..%d", 2*i+1, 2*i+2) }) + ")")
	}},
	"loc-join-points": {"location", 600, true, func(n int) []byte {
		return []byte("join(" + joinOf(n, ",", func(i int) string { return fmt.Sprintf("%d", 3*i+1) }) + ")")
	}},
	"loc-join-same-point": {"location", 2000, true, func(n int) []byte {
		return []byte("join(" + strings.Repeat("7,", n) + "7)")
	}},
	"loc-join-sites": {"location", 300, true, func(n int) []byte {
		return []byte("join(" + joinOf(n, ",", func(i int) string { return fmt.Sprintf("%d^%d,%d..%d", 4*i+1, 4*i+2, 4*i+2, 4*i+3) }) + ")")
	}},
	"loc-join-complements": {"location", 200, true, func(n int) []byte {
		return []byte("join(" + joinOf(n, ",", func(i int) string { return fmt.Sprintf("complement(%d..%d)", 3*i+1, 3*i+2) }) + ")")
	}},
	"loc-order-ranges": {"location", 300, true, func(n int) []byte {
		return []byte("order(" + joinOf(n, ",", func(i int) string { return fmt.Sprintf("%d..%d", 3*i+1, 3*i+2) }) + ")")
	}},
	"loc-join-of-joins": {"location", 100, true, func(n int) []byte {
		return []byte("join(" + joinOf(n, ",", func(i int) string { return fmt.Sprintf("join(%d..%d,%d..%d)", 6*i+1, 6*i+2, 6*i+4, 6*i+5) }) + ")")
	}},
	"loc-nested-complement": {"location", 500, true, func(n int) []byte {
		return []byte(strings.Repeat("complement(", n) + "1..5" + strings.Repeat(")", n))
	}},
	"loc-nested-join": {"location", 500, true, func(n int) []byte {
		return []byte(strings.Repeat("join(", n) + "1..5" + strings.Repeat(")", n))
	}},
	"loc-nested-mixed": {"location", 300, true, func(n int) []byte {
		return []byte(strings.Repeat("join(complement(order(", n) + "1..5" + strings.Repeat(")))", n))
	}},
	"loc-nested-unclosed": {"location", 500, false, func(n int) []byte { return []byte(strings.Repeat("join(complement(", n) + "1..5") }},
	"loc-long-number":     {"location", 5000, false, func(n int) []byte { return []byte(strings.Repeat("9", n) + ".." + strings.Repeat("9", n)) }},
	"loc-join-trailing-garbage": {"location", 300, false, func(n int) []byte {
		return []byte("join(" + joinOf(n, ",", func(i int) string { return fmt.Sprintf("%d..%d", 3*i+1, 3*i+2) }) + ",x)")
	}},
	"loc-join-ambiguous": {"location", 300, true, func(n int) []byte {
		return []byte("join(" + joinOf(n, ",", func(i int) string { return fmt.Sprintf("%d.%d", 4*i+1, 4*i+3) }) + ")")
	}},
	"loc-join-partials": {"location", 300, true, func(n int) []byte {
		return []byte("join(" + joinOf(n, ",", func(i int) string { return fmt.Sprintf("<%d..>%d", 4*i+1, 4*i+3) }) + ")")
	}},
	"loc-join-partial-abutting": {"location", 300, true, func(n int) []byte {
		return []byte("join(" + joinOf(n, ",", func(i int) string { return fmt.Sprintf("<%d..>%d", 2*i+1, 2*i+2) }) + ")")
	}},
	"loc-complement-of-join": {"location", 300, true, func(n int) []byte {
		return []byte("complement(join(" + joinOf(n, ",", func(i int) string { return fmt.Sprintf("%d..%d", 3*i+1, 3*i+2) }) + "))")
	}},
	"loc-join-mixed-complements": {"location", 200, true, func(n int) []byte {
		return []byte("join(" + joinOf(n, ",", func(i int) string {
			if i%3 == 0 {
				return fmt.Sprintf("%d..%d", 3*i+1, 3*i+2)
			}
			return fmt.Sprintf("complement(%d..%d)", 3*i+1, 3*i+2)
		}) + ")")
	}},
	"loc-order-of-joins": {"location", 100, true, func(n int) []byte {
		return []byte("order(" + joinOf(n, ",", func(i int) string { return fmt.Sprintf("join(%d..%d,%d..%d)", 6*i+1, 6*i+2, 6*i+4, 6*i+5) }) + ")")
	}},
	"loc-order-of-orders": {"location", 100, true, func(n int) []byte {
		return []byte("order(" + joinOf(n, ",", func(i int) string { return fmt.Sprintf("order(%d..%d,%d..%d)", 6*i+1, 6*i+2, 6*i+4, 6*i+5) }) + ")")
	}},
	"loc-nested-order": {"location", 500, true, func(n int) []byte {
		return []byte(strings.Repeat("order(", n) + "1..5" + strings.Repeat(")", n))
	}},
	"feature-long-key": {"scan", 20000, false, func(n int) []byte {
		return []byte(gbLocus + gbFeatHdr + "     " + strings.Repeat("k", n) + " 1..5\n" + gbTail)
	}},
	"qualifier-long-name": {"scan", 20000, false, func(n int) []byte {
		return []byte(gbLocus + gbFeatHdr + "     gene            1..5\n" + qIndent + "/" + strings.Repeat("n", n) + "=1\n" + gbTail)
	}},
	"locus-long-name": {"scan", 20000, false, func(n int) []byte {
		return []byte("LOCUS       " + strings.Repeat("N", n) + " 10 bp    DNA     linear   SYN 01-JAN-2020\n" + gbTail)
	}},
	"dblink-no-colon": {"scan", 600, false, func(n int) []byte {
		return []byte(gbLocus + "DBLINK      " + joinOf(n, "\n            ", func(i int) string { return fmt.Sprintf("BioProject PRJNA%d", i) }) + "\n" + gbTail)
	}},
	"origin-one-group-lines": {"scan", 3000, false, func(n int) []byte {
		return []byte(locusN(n*10) + "ORIGIN      \n" + rep(n, func(i int) string { return fmt.Sprintf("%9d acgtacgtac\n", i*10+1) }) + "//\n")
	}},
	"features-join-each": {"scan", 200, true, func(n int) []byte {
		return []byte(gbLocus + gbFeatHdr + rep(n, func(i int) string {
			return fmt.Sprintf("     CDS             join(%d..%d,%d..%d,%d..%d)\n%s/gene=\"a%d\"\n%s/codon_start=1\n", 1, 2, 4, 5, 7, 8, qIndent, i, qIndent)
		}) + gbTail)
	}},
	"table-join-ranges": {"table", 300, true, func(n int) []byte {
		loc := "join(" + joinOf(n, ",", func(i int) string { return fmt.Sprintf("%d..%d", 3*i+1, 3*i+2) }) + ")"
		return []byte("gene            " + loc + "\n                /gene=\"a\"\n")
	}},
	"selector-many-values": {"selector", 1500, true, func(n int) []byte {
		return []byte("gene/note=" + joinOf(n, "|", func(i int) string { return fmt.Sprintf("v%d", i) }))
	}},
	"locator-range-list": {"locator", 5000, false, func(n int) []byte {
		return []byte(joinOf(n, ",", func(i int) string { return fmt.Sprintf("%d..%d", i+1, i+2) }))
	}},
	"selector-clauses": {"selector", 1500, true, func(n int) []byte {
		return []byte("gene" + rep(n, func(i int) string { return fmt.Sprintf("/q%d=v%d", i, i) }))
	}},
	"selector-long-regexp": {"selector", 10000, true, func(n int) []byte { return []byte("gene/note=" + strings.Repeat("ab", n/2)) }},
	"locator-selector-clauses": {"locator", 1500, true, func(n int) []byte {
		return []byte("gene" + rep(n, func(i int) string { return fmt.Sprintf("/q%d=v%d", i, i) }) + "@^-1..$+1")
	}},
	"locator-long-tail":    {"locator", 10000, false, func(n int) []byte { return []byte("1..5@" + strings.Repeat("^", n)) }},
	"modifier-long-number": {"modifier", 10000, false, func(n int) []byte { return []byte("^+" + strings.Repeat("0", n) + "1..$") }},
	"modifier-garbage":     {"modifier", 10000, false, func(n int) []byte { return []byte(strings.Repeat("^..$", n/4)) }},
	"date-long":            {"date", 10000, false, func(n int) []byte { return []byte("01-JAN-" + strings.Repeat("2", n)) }},
}

var c07ShapeNames = func() []string {
	var out []string
	for k := range c07Shapes {
		out = append(out, k)
	}
	for i := range out {
		for j := i + 1; j < len(out); j++ {
			if out[j] < out[i] {
				out[i], out[j] = out[j], out[i]
			}
		}
	}
	return out
}()

// c07Run performs the bare call (no oracle work) whose duration is measured; ok reports acceptance.
func c07Run(target string, in []byte) (ok bool) {
	switch target {
	case "scan":
		sc := seqio.NewAutoScanner(bytes.NewReader(in))
		for sc.Scan() {
			v := sc.Value()
			_ = v.Bytes() // the ORIGIN block is decoded lazily: reading the residues is part of reading the record
		}
		return sc.Err() == nil
	case "table":
		_, err := seqio.INSDCTableParser("").Parse(pars.FromBytes(in))
		return err == nil
	case "location":
		_, err := gts.AsLocation(string(in))
		return err == nil
	case "locator":
		_, err := gts.AsLocator(string(in))
		return err == nil
	case "modifier":
		_, err := gts.AsModifier(string(in))
		return err == nil
	case "selector":
		_, err := gts.Selector(string(in))
		return err == nil
	case "date":
		_, err := seqio.AsDate(string(in))
		return err == nil
	}
	panic("harness: unknown scale target " + target)
}

var scaleMu sync.Mutex

const scaleCap = 90 * time.Second

// timeMin returns the minimum duration of k runs (capped: a run that exceeds scaleCap ends the measurement).
func timeMin(target string, in []byte, k int) (best time.Duration, ok bool, pi *PanicInfo, capped bool) {
	best = time.Duration(math.MaxInt64)
	for i := 0; i < k; i++ {
		runtime.GC()
		done := make(chan *PanicInfo, 1)
		var d time.Duration
		go func() {
			done <- guard(func() {
				start := time.Now()
				ok = c07Run(target, in)
				d = time.Since(start)
			})
		}()
		select {
		case p := <-done:
			if p != nil {
				return 0, false, p, false
			}
			if d < best {
				best = d
			}
		case <-time.After(scaleCap):
			return scaleCap, false, nil, true
		}
		if best > 5*time.Second {
			break // one run of a slow input is enough
		}
	}
	return best, ok, nil, false
}

type scaleMeasure struct {
	n              int
	size1, size16  int
	t1, t4, t16    time.Duration
	accepted       bool
	capped         bool
	r16, r4, expon float64
}

func c07Measure(sh c07Shape, n, k int) (m scaleMeasure, pi *PanicInfo) {
	m.n = n
	in1, in4, in16 := sh.Build(n), sh.Build(4*n), sh.Build(16*n)
	m.size1, m.size16 = len(in1), len(in16)
	var c bool
	if m.t1, m.accepted, pi, c = timeMin(sh.Target, in1, k+2); pi != nil || c {
		m.capped = c
		return
	}
	if m.t4, _, pi, c = timeMin(sh.Target, in4, k); pi != nil {
		return
	}
	m.capped = m.capped || c
	if m.t16, _, pi, c = timeMin(sh.Target, in16, k); pi != nil {
		return
	}
	m.capped = m.capped || c
	m.r16 = float64(m.t16) / float64(maxInt64(int64(m.t1), 1))
	m.r4 = float64(m.t16) / float64(maxInt64(int64(m.t4), 1))
	m.expon = math.Log(m.r16) / math.Log(16)
	return
}

func maxInt64(a, b int64) int64 {
	if a > b {
		return a
	}
	return b
}

func (m scaleMeasure) suspicious() bool {
	return m.t16 >= 30*time.Millisecond && m.r16 > 100 && m.r4 > 6
}

func (m scaleMeasure) String() string {
	return fmt.Sprintf("n=%d: %d bytes in %v, x4 in %v, x16 (%d bytes) in %v; t(16n)/t(n)=%.1f t(16n)/t(4n)=%.1f (growth exponent %.2f; proportional = 16, 4, 1.00)",
		m.n, m.size1, m.t1, m.t4, m.size16, m.t16, m.r16, m.r4, m.expon)
}

var scaleNotes []string

func c07ScaleCheck(c c07Case) *Violation {
	sh, ok := c07Shapes[c.Shape]
	if !ok {
		panic("harness: unknown shape " + c.Shape)
	}
	scaleMu.Lock()
	defer scaleMu.Unlock()
	n := c.N
	if n <= 0 {
		n = sh.Base
	}
	what := fmt.Sprintf("scale(%s %s)", sh.Target, c.Shape)
	var m scaleMeasure
	var pi *PanicInfo
	// grow n until the largest run is long enough to be measured (or the input gets large)
	for step := 0; ; step++ {
		m, pi = c07Measure(sh, n, 3)
		if pi != nil {
			return panicViolation(what, pi)
		}
		if m.capped {
			return viol("hang", "%s: a run did not finish within %v (%s)", what, scaleCap, m)
		}
		if m.t16 >= 30*time.Millisecond || m.size16 >= 4<<20 || step == 3 {
			break
		}
		n *= 4
	}
	if sh.Valid != m.accepted {
		skipCase(fmt.Sprintf("shape-%s-accepted=%v", c.Shape, m.accepted))
	}
	scaleNotes = append(scaleNotes, fmt.Sprintf("%s %s", c.Shape, m))
	if !m.suspicious() {
		return nil
	}
	// confirm twice with more repetitions; every confirmation must agree
	for i := 0; i < 2; i++ {
		m2, pi := c07Measure(sh, n, 5)
		if pi != nil {
			return panicViolation(what, pi)
		}
		if m2.capped {
			return viol("hang", "%s: a run did not finish within %v (%s)", what, scaleCap, m2)
		}
		if !m2.suspicious() {
			skipCase("scale-not-confirmed")
			return nil
		}
		m = m2
	}
	return viol("superlinear", "%s: time is not proportional to the input: %s", what, m)
}
