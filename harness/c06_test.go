package harness

// C06 — Location text round-trips; join reduction never changes the denoted bases.

import (
	"fmt"
	"os"
	"strings"
	"testing"

	"github.com/go-gts/gts"
	"pgregory.net/rapid"
)

type c06Case struct {
	Mode  string `json:"mode"`            // value, string, reduce
	Loc   *Loc   `json:"loc,omitempty"`   // value: AST handed to the constructors
	Text  string `json:"text,omitempty"`  // string: text handed to the parser
	Kind  string `json:"kind,omitempty"`  // reduce: jn / or
	Parts []Loc  `json:"parts,omitempty"` // reduce: arguments (each built through the constructors)
	Off   int    `json:"off,omitempty"`   // value, reduce: every coordinate is moved by this amount (coordinates beyond 2^31, 2^32, 2^53)
}

// printFixedPoint: s must parse, and the parse must print as s again.
func printFixedPoint(what, s string) *Violation {
	var loc gts.Location
	var err error
	if pi := guard(func() { loc, err = gts.AsLocation(s) }); pi != nil {
		return panicViolation("AsLocation("+s+")", pi)
	}
	if err != nil {
		return viol("reparse", "%s: printed form %q is rejected by the parser: %v", what, s, err)
	}
	var s2 string
	if pi := guard(func() { s2 = loc.String() }); pi != nil {
		return panicViolation("String() of parsed "+s, pi)
	}
	if s2 != s {
		return viol("fixed-point", "%s: %q parses and prints as %q", what, s, s2)
	}
	return nil
}

func c06Check(c c06Case) *Violation {
	switch c.Mode {
	case "value":
		var v gts.Location
		if c.Off != 0 {
			moved := shiftLoc(*c.Loc, c.Off)
			c.Loc = &moved
		}
		if pi := guard(func() { v = toGts(*c.Loc) }); pi != nil {
			return panicViolation("constructors", pi)
		}
		ast, ok := fromGts(v)
		if !ok || !ast.wellFormed() {
			return viol("malformed", "constructors built a malformed value from %s", c.Loc)
		}
		var s string
		if pi := guard(func() { s = v.String() }); pi != nil {
			return panicViolation("String", pi)
		}
		var back gts.Location
		var err error
		if pi := guard(func() { back, err = gts.AsLocation(s) }); pi != nil {
			return panicViolation("AsLocation("+s+")", pi)
		}
		if err != nil {
			return viol("reparse", "value %s prints as %q which the parser rejects: %v", ast, s, err)
		}
		bast, ok := fromGts(back)
		if !ok || !bast.wellFormed() {
			return viol("malformed", "parsing %q gave a malformed value", s)
		}
		if s2 := back.String(); s2 != s {
			return viol("fixed-point", "value %s prints as %q; parsing that prints %q", ast, s, s2)
		}
		d1, d2 := collapse(den(ast)), collapse(den(bast))
		if !sameElems(d1, d2) {
			return viol("denotation", "value %s (%q) re-parses as %s: denotes %s vs %s", ast, s, bast, elemsString(d1), elemsString(d2))
		}
		m1, m2 := outerMarkers(den(ast), markers(ast)), outerMarkers(den(bast), markers(bast))
		if !sameMarkers(m1, m2) {
			return viol("markers", "value %s (%q) re-parses as %s: markers %s vs %s", ast, s, bast, markersString(m1), markersString(m2))
		}
		return nil
	case "string":
		var loc gts.Location
		var err error
		if pi := guard(func() { loc, err = gts.AsLocation(c.Text) }); pi != nil {
			return panicViolation(fmt.Sprintf("AsLocation(%q)", c.Text), pi)
		}
		if err != nil {
			return nil
		}
		if loc == nil {
			return viol("nil", "AsLocation(%q) returned neither a value nor an error", c.Text)
		}
		var p1 string
		if pi := guard(func() { p1 = loc.String() }); pi != nil {
			return panicViolation(fmt.Sprintf("String() of AsLocation(%q)", c.Text), pi)
		}
		return printFixedPoint(fmt.Sprintf("accepted string %q", c.Text), p1)
	case "reduce":
		parts := make([]gts.Location, len(c.Parts))
		var want []Elem
		for i, p := range c.Parts {
			if pi := guard(func() { parts[i] = toGts(p) }); pi != nil {
				return panicViolation("constructors", pi)
			}
			ast, ok := fromGts(parts[i])
			if !ok {
				return viol("malformed", "constructors built a malformed value from %s", p)
			}
			want = append(want, den(ast)...)
		}
		var v gts.Location
		if pi := guard(func() {
			if c.Kind == "or" {
				v = gts.Order(parts...)
			} else {
				v = gts.Join(parts...)
			}
		}); pi != nil {
			return panicViolation(c.Kind, pi)
		}
		ast, ok := fromGts(v)
		if !ok || !ast.wellFormed() {
			return viol("malformed", "%s of %v is malformed", c.Kind, c.Parts)
		}
		// self-check of the harness's reducer simulation (used to attribute known findings): counted, never judged
		if curStats != nil {
			built := make([]Loc, len(parts))
			for i, p := range parts {
				built[i], _ = fromGts(p)
			}
			if sim, _ := reduceSim(Loc{K: c.Kind, Parts: built}); fmt.Sprint(sim) == fmt.Sprint(ast) {
				curStats.label("sim:agrees")
			} else {
				curStats.label("sim:differs")
				if os.Getenv("VERIF_SIM_DEBUG") != "" {
					fmt.Fprintf(os.Stderr, "SIMDIFF %s%v: gts %s sim %s\n", c.Kind, c.Parts, ast, sim)
				}
			}
		}
		wr, gr := residues(want), residues(den(ast))
		if !sameElems(wr, gr) {
			return viol("denotation", "%s%v denotes %s but its parts denote %s (result %s)", c.Kind, c.Parts, elemsString(gr), elemsString(wr), ast)
		}
		if !hasResidue(want) && hasResidue(den(ast)) {
			return viol("denotation", "%s%v of sites denotes residues %s", c.Kind, c.Parts, elemsString(gr))
		}
		// no marker may be invented by the reduction
		allowed := map[Marker]bool{}
		for _, p := range parts {
			a, _ := fromGts(p)
			for _, m := range markers(a) {
				allowed[m] = true
			}
		}
		for _, m := range markers(ast) {
			if !allowed[m] {
				return viol("markers", "%s%v invents partial marker %s (result %s)", c.Kind, c.Parts, m, ast)
			}
		}
		// outer markers are kept
		var all []Marker
		for _, p := range parts {
			a, _ := fromGts(p)
			all = append(all, markers(a)...)
		}
		m1, m2 := outerMarkers(want, all), outerMarkers(den(ast), markers(ast))
		if !sameMarkers(m1, m2) {
			return viol("markers", "%s%v: outer markers %s became %s (result %s)", c.Kind, c.Parts, markersString(m1), markersString(m2), ast)
		}
		return nil
	}
	return nil
}

func c06Classify(c c06Case) (bool, []string) {
	switch c.Mode {
	case "value":
		ast, _ := fromGts(toGts(*c.Loc))
		labels := []string{"value", "kind:" + ast.K, fmt.Sprintf("depth=%d", ast.depth())}
		if c.Off != 0 {
			labels = append(labels, "coordinates-beyond-2^31")
		}
		reduced := len(ast.leaves()) < len(c.Loc.leaves())
		if reduced {
			labels = append(labels, "reduction-fired")
		}
		return ast.depth() >= 2 || reduced, labels
	case "string":
		_, err := gts.AsLocation(c.Text)
		if err != nil {
			return false, []string{"string", "rejected"}
		}
		labels := []string{"string", "accepted"}
		nt := strings.ContainsAny(c.Text, "(^<>")
		return nt, labels
	default:
		labels := []string{"reduce:" + c.Kind, fmt.Sprintf("parts=%d", len(c.Parts))}
		n := 0
		for _, p := range c.Parts {
			a, _ := fromGts(toGts(p))
			n += len(a.leaves())
		}
		var v gts.Location
		parts := make([]gts.Location, len(c.Parts))
		for i, p := range c.Parts {
			parts[i] = toGts(p)
		}
		if c.Kind == "or" {
			v = gts.Order(parts...)
		} else {
			v = gts.Join(parts...)
		}
		ast, _ := fromGts(v)
		fired := len(ast.leaves()) < n
		if fired {
			labels = append(labels, "reduction-fired")
		}
		return fired, labels
	}
}

func c06KF(c c06Case, v *Violation) []string {
	var sigs []string
	switch c.Mode {
	case "reduce":
		if v.Kind == "denotation" {
			l := Loc{K: c.Kind, Parts: c.Parts}
			if pointAbsorbed(l) {
				sigs = append(sigs, "join-range-then-point-drops-point")
			}
		}
	case "value":
		if c.Off != 0 {
			moved := shiftLoc(*c.Loc, c.Off)
			c.Loc = &moved
		}
		if v.Kind == "fixed-point" || v.Kind == "denotation" {
			// the value itself is not fully reduced (one more pass of the same rules changes it): reducer not idempotent
			r1, _ := reduceSim(*c.Loc)
			r2, _ := reduceSim(r1)
			if fmt.Sprint(r1) != fmt.Sprint(r2) {
				sigs = append(sigs, "join-reducer-not-idempotent")
			}
		}
	}
	return sigs
}

var c06Prop = &Prop[c06Case]{ID: "C06", Check: c06Check, Classify: c06Classify, KF: c06KF}

func init() { registerReplay(c06Prop) }

// c06GenText assembles location text from the grammar, with noise.
func c06GenText(t *rapid.T, depth int) string {
	num := func() string {
		switch rapid.IntRange(0, 9).Draw(t, "numkind") {
		case 0:
			return "0"
		case 1:
			return "0" + fmt.Sprint(rapid.IntRange(0, 99).Draw(t, "n"))
		case 2:
			return fmt.Sprint(rapid.IntRange(100000, 99999999).Draw(t, "n"))
		case 3:
			return rapid.SampledFrom([]string{"-1", "+3", "9223372036854775807", "9223372036854775808", "99999999999999999999"}).Draw(t, "odd")
		default:
			return fmt.Sprint(rapid.IntRange(1, 40).Draw(t, "n"))
		}
	}
	if depth <= 0 || rapid.IntRange(0, 9).Draw(t, "leaf") < 5 {
		a := num()
		switch rapid.IntRange(0, 7).Draw(t, "leafkind") {
		case 0:
			return a
		case 1:
			x := rapid.IntRange(0, 30).Draw(t, "g")
			if rapid.IntRange(0, 4).Draw(t, "nonadj") == 0 {
				return fmt.Sprintf("%d^%d", x, x+rapid.IntRange(0, 3).Draw(t, "d"))
			}
			return fmt.Sprintf("%d^%d", x, x+1)
		case 2:
			return a + "." + num()
		case 3:
			return "<" + a + "..>" + num()
		case 4:
			return a + ".." + num() + ">" // legacy spelling
		case 5:
			return "<" + a + ".." + num()
		default:
			return a + ".." + num()
		}
	}
	n := rapid.IntRange(1, 4).Draw(t, "nparts")
	parts := make([]string, n)
	for i := range parts {
		parts[i] = c06GenText(t, depth-1)
	}
	sep := rapid.SampledFrom([]string{",", ",", ", ", ",  "}).Draw(t, "sep")
	switch rapid.IntRange(0, 3).Draw(t, "wrap") {
	case 0:
		return "complement(" + parts[0] + ")"
	case 1:
		return "order(" + strings.Join(parts, sep) + ")"
	default:
		return "join(" + strings.Join(parts, sep) + ")"
	}
}

func c06Mutate(t *rapid.T, s string) string {
	if len(s) == 0 {
		return s
	}
	alphabet := "0123456789.^<>,() jcor"
	b := []byte(s)
	switch rapid.IntRange(0, 4).Draw(t, "mut") {
	case 0:
		i := rapid.IntRange(0, len(b)-1).Draw(t, "pos")
		return string(b[:i]) + string(b[i+1:])
	case 1:
		i := rapid.IntRange(0, len(b)).Draw(t, "pos")
		c := alphabet[rapid.IntRange(0, len(alphabet)-1).Draw(t, "ch")]
		return string(b[:i]) + string(c) + string(b[i:])
	case 2:
		i := rapid.IntRange(0, len(b)).Draw(t, "pos")
		return string(b[:i])
	case 3:
		i := rapid.IntRange(0, len(b)-1).Draw(t, "pos")
		b[i] = alphabet[rapid.IntRange(0, len(alphabet)-1).Draw(t, "ch")]
		return string(b)
	}
	return s
}

func c06Gen(t *rapid.T) c06Case {
	cfg := locCfg{L: 20, Hot: []int{0, 1, 5, 6, 7, 19, 20}, MaxDepth: 3, MaxParts: 5, Ambig: true, Sites: true, MaxSpan: 6}
	if genLarge {
		L := drawLen(t, 20, 20, "L")
		cfg = locCfg{L: L, Hot: []int{0, 1, L / 2, L/2 + 1, L - 1, L}, MaxDepth: 3, MaxParts: 14, Ambig: true, Sites: true}
	}
	switch rapid.IntRange(0, 2).Draw(t, "mode") {
	case 0:
		raw := cfg.node(t, 3)
		return c06Case{Mode: "value", Loc: &raw, Off: rapid.SampledFrom([]int{0, 0, 0, 1<<31 - 3, 1 << 31, 1<<32 - 1, 1 << 53, 1 << 62}).Draw(t, "off")}
	case 1:
		s := c06GenText(t, 3)
		if rapid.IntRange(0, 2).Draw(t, "noise") == 0 {
			s = c06Mutate(t, s)
		}
		return c06Case{Mode: "string", Text: s}
	default:
		n := drawCount(t, 1, 5, 14, "n")
		parts := make([]Loc, n)
		for i := range parts {
			parts[i] = cfg.node(t, 2)
		}
		return c06Case{Mode: "reduce", Kind: rapid.SampledFrom([]string{"jn", "jn", "or"}).Draw(t, "kind"), Parts: parts}
	}
}

func TestC06(t *testing.T) {
	st := newStats("C06")
	defer st.flush()
	rapidPart(t, c06Prop, st, "rapid", pick(60000, 500000), c06Gen)
	if t.Failed() {
		return
	}
	rapidLargePart(t, c06Prop, st, pick(800, 12000), c06Gen)
	if t.Failed() {
		return
	}
	// exhaustive: joins/orders of up to three leaves over a 4-residue sequence (every leaf kind and partial
	// combination), plain and complemented: reduction soundness and value round trip
	e := enumPart(t, c06Prop, st, "exhaustive-small")
	L := pick(3, 4)
	var leaves []Loc
	for p := 0; p < L; p++ {
		leaves = append(leaves, lpt(p))
	}
	for g := 0; g <= L; g++ {
		leaves = append(leaves, lbt(g))
	}
	for s := 0; s < L; s++ {
		for x := s + 1; x <= L; x++ {
			for m := 0; m < 4; m++ {
				leaves = append(leaves, lprg(s, x, m&1 != 0, m&2 != 0))
			}
			leaves = append(leaves, lam(s, x))
		}
	}
	for _, a := range leaves {
		for _, b := range leaves {
			for _, kind := range []string{"jn", "or"} {
				if !e.try(c06Case{Mode: "reduce", Kind: kind, Parts: []Loc{a, b}}) {
					return
				}
				v := Loc{K: kind, Parts: []Loc{a, b}}
				cv := lco(v)
				if !e.try(c06Case{Mode: "value", Loc: &v}) || !e.try(c06Case{Mode: "value", Loc: &cv}) {
					return
				}
				if !e.try(c06Case{Mode: "value", Loc: &v, Off: 1<<31 - 2}) || !e.try(c06Case{Mode: "value", Loc: &cv, Off: 1 << 53}) {
					return
				}
			}
			if a.P5 || a.P3 || b.P5 || b.P3 {
				continue
			}
			for _, c3 := range leaves {
				if c3.P5 || c3.P3 {
					continue
				}
				if !e.try(c06Case{Mode: "reduce", Kind: "jn", Parts: []Loc{a, b, c3}}) {
					return
				}
				v := ljn(a, lco(b), lco(c3))
				if !e.try(c06Case{Mode: "value", Loc: &v}) {
					return
				}
				// the same three parts handed over as nested joins (two-argument calls whose arguments flatten to three parts)
				nl, nr, nc := ljn(ljn(a, b), c3), ljn(a, ljn(b, c3)), ljn(lco(c3), lco(ljn(a, b)))
				for _, nv := range []*Loc{&nl, &nr, &nc} {
					if !e.try(c06Case{Mode: "value", Loc: nv}) {
						return
					}
				}
				if !e.try(c06Case{Mode: "reduce", Kind: "jn", Parts: []Loc{ljn(a, b), c3}}) || !e.try(c06Case{Mode: "reduce", Kind: "jn", Parts: []Loc{a, ljn(b, c3)}}) {
					return
				}
			}
		}
	}
	e.done(true)
	if t.Failed() {
		return
	}
	// every pair of ranges of every length over a longer sequence (overlap, containment and abutment by any amount
	// against a part of any length: the small enumeration above stops at four residues), complete and with the
	// markers that face each other, joined and ordered
	rp := enumPart(t, c06Prop, st, "range-pairs")
	RL := pick(16, 30)
	for s1 := 0; s1 < RL; s1++ {
		for e1 := s1 + 1; e1 <= RL; e1++ {
			for s2 := 0; s2 < RL; s2++ {
				for e2 := s2 + 1; e2 <= RL; e2++ {
					for _, kind := range []string{"jn", "or"} {
						if !rp.try(c06Case{Mode: "reduce", Kind: kind, Parts: []Loc{lprg(s1, e1, false, false), lprg(s2, e2, false, false)}}) ||
							!rp.try(c06Case{Mode: "reduce", Kind: kind, Parts: []Loc{lprg(s1, e1, false, true), lprg(s2, e2, true, false)}}) {
							return
						}
					}
				}
			}
		}
	}
	rp.done(true)
}

// FuzzC06Parse: native coverage-guided fuzzing of the string half (thorough tier only).
func FuzzC06Parse(f *testing.F) {
	for _, s := range []string{"1", "1^2", "0^1", "1..5", "<1..>5", "1..5>", "1.5", "join(1..2,4..5)", "order(1,3)", "complement(join(<1..2,4..>5))",
		"join(1, 2)", "join(", "complement(", "..", "^", "<", ">", "1..", "5..3", "join(1,1^2,1)", "join(4..6,7)", "99999999999999999999"} {
		f.Add(s)
	}
	f.Fuzz(func(t *testing.T, s string) {
		if len(s) > 4096 {
			return
		}
		if v := c06Check(c06Case{Mode: "string", Text: s}); v != nil {
			if len(c06KF(c06Case{Mode: "string", Text: s}, v)) > 0 {
				return
			}
			writeFail("C06", "fuzz", mustJSON(c06Case{Mode: "string", Text: s}), v)
			t.Fatalf("VIOLATION C06/fuzz [%s]: %s", v.Kind, v.Msg)
		}
	})
}
