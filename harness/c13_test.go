package harness

// C13 — A cache entry is returned only if it is exactly what was written (fault enumeration).

import (
	"bytes"
	"crypto/md5"
	"crypto/sha1"
	"crypto/sha256"
	"crypto/sha512"
	"encoding/hex"
	"fmt"
	"hash"
	"io"
	"os"
	"os/exec"
	"os/signal"
	"path/filepath"
	"pgregory.net/rapid"
	"strconv"
	"strings"
	"syscall"
	"testing"

	"github.com/go-gts/gts/cmd/cache"
)

// TestC13Child is the writer process of the write-fault part: it limits the size of files it may write
// (RLIMIT_FSIZE, what `ulimit -f` sets), so that a Write or the final flush inside Close fails with EFBIG at a
// chosen byte, runs Create/Write/Close through the real API and reports what Close returned.
func TestC13Child(t *testing.T) {
	dir := os.Getenv("VERIF_C13_CHILD_DIR")
	if dir == "" {
		t.Skip("helper process only")
	}
	atoi := func(k string) int { v, _ := strconv.Atoi(os.Getenv(k)); return v }
	body := c13Body(os.Getenv("VERIF_C13_BODY"), atoi("VERIF_C13_LEN"), atoi("VERIF_C13_SEED"))
	rsum, dsum := c13Digests(atoi("VERIF_C13_SEED"))
	signal.Ignore(syscall.SIGXFSZ)
	lim := uint64(atoi("VERIF_C13_LIMIT"))
	lift := os.Getenv("VERIF_C13_LIFT") == "1" // the limit holds while the entry is created only (a disk that was full for a moment)
	var old syscall.Rlimit
	syscall.Getrlimit(syscall.RLIMIT_FSIZE, &old)
	limit := syscall.Rlimit{Cur: lim, Max: lim}
	if lift {
		limit.Max = old.Max
	}
	if err := syscall.Setrlimit(syscall.RLIMIT_FSIZE, &limit); err != nil {
		fmt.Println("C13CHILD setrlimit-failed")
		return
	}
	f, err := cache.CreateLevel(dir, sha1.New(), rsum, dsum, atoi("VERIF_C13_LEVEL"))
	if lift {
		if e := syscall.Setrlimit(syscall.RLIMIT_FSIZE, &old); e != nil {
			fmt.Println("C13CHILD setrlimit-failed")
			return
		}
	}
	if err != nil {
		if lift {
			// what the caller of CreateLevel does with a failed creation (cmd/gts TryCache): the entry is removed
			os.Remove(filepath.Join(dir, c13NameFor(rsum, dsum, "")))
		}
		fmt.Println("C13CHILD create-error")
		return
	}
	werr := error(nil)
	for _, cut := range c13Splits(len(body), atoi("VERIF_C13_CHUNKS")) {
		if werr != nil {
			break
		}
		_, werr = f.Write(body[cut[0]:cut[1]])
	}
	cerr := f.Close()
	switch {
	case werr != nil:
		fmt.Println("C13CHILD write-error")
	case cerr != nil:
		fmt.Println("C13CHILD close-error")
	default:
		fmt.Println("C13CHILD close-ok")
	}
}

type c13Case struct {
	Body   string  `json:"body"` // empty, one, text, random, compressible
	Len    int     `json:"len"`
	Seed   int     `json:"seed"`
	Chunks int     `json:"chunks"`
	Level  int     `json:"level"`
	Fault  string  `json:"fault"` // none, flip, prefix, tail, rename, wrong-root, wrong-data, crash-body, crash-header, live
	Off    int     `json:"off,omitempty"`
	Mask   int     `json:"mask,omitempty"`
	Hash   string  `json:"hash,omitempty"` // digest function of the entry: "" = sha1 (what cmd/gts uses), md5, sha256, sha512
	Ops    []c13Op `json:"ops,omitempty"`  // Fault "history": operations on several entries of one directory in one process
}

// c13Op: one step of a history. Kinds: write (create key Key with a body of Len bytes, close; Twice closes again),
// open (open key Key and keep the handle), read (read handle Key%handles fully), close (close that handle; Twice
// closes again), corrupt (flip one byte of key Key's file, only while no handle of it is open).
type c13Op struct {
	Kind  string `json:"kind"`
	Key   int    `json:"key"`
	Len   int    `json:"len,omitempty"`
	Twice bool   `json:"twice,omitempty"`
}

func c13Body(kind string, n, seed int) []byte {
	switch kind {
	case "empty":
		return []byte{}
	case "text":
		s := []byte(">seq\nACGTACGTNNNNacgt\n")
		out := []byte{}
		for len(out) < n {
			out = append(out, s...)
		}
		return out[:n]
	case "compressible":
		out := make([]byte, n)
		for i := range out {
			out[i] = "ACGT"[(i/97+seed)%4]
		}
		return out
	default: // pseudo-random (incompressible), also "one"
		out := make([]byte, n)
		x := uint64(seed)*2654435761 + 12345
		for i := range out {
			x = splitmix(x)
			out[i] = byte(x)
		}
		return out
	}
}

func c13NewHash(name string) hash.Hash {
	switch name {
	case "md5":
		return md5.New()
	case "sha256":
		return sha256.New()
	case "sha512":
		return sha512.New()
	}
	return sha1.New()
}

func c13DigestsFor(seed int, name string) (rsum, dsum []byte) {
	h := c13NewHash(name)
	h.Write([]byte(fmt.Sprintf("root-%d", seed)))
	rsum = h.Sum(nil)
	h.Reset()
	h.Write([]byte(fmt.Sprintf("data-%d", seed)))
	return rsum, h.Sum(nil)
}

func c13Digests(seed int) (rsum, dsum []byte) { return c13DigestsFor(seed, "") }

func c13NameFor(rsum, dsum []byte, name string) string {
	h := c13NewHash(name)
	h.Write(append(append([]byte{}, rsum...), dsum...))
	return hex.EncodeToString(h.Sum(nil))
}

func c13Name(rsum, dsum []byte) string { return c13NameFor(rsum, dsum, "") }

type c13Entry struct {
	body     []byte
	finished []byte   // the file as written and closed
	live     [][]byte // file images observed after each Write, before Close
}

var c13Cache = map[string]*c13Entry{}

func c13Dir() string {
	d := filepath.Join(outDir(), fmt.Sprintf("c13-%d-%d", os.Getpid(), shard()))
	os.MkdirAll(d, 0o755)
	return d
}

// c13Make writes the entry through the real API (once per body configuration) and records the images.
// c13Splits: how the body is handed to Write. chunks >= 1: that many equal pieces. Negative values are uneven
// patterns: -1 a 19-byte piece then the rest; -2 all but 19 bytes then the rest; -3 seven single bytes then the rest;
// -4 pieces of 1, 2, 4, 8, ... bytes; -5 pieces of 4096 bytes with a short first piece of 7; -6 300 bytes, then a
// piece of exactly 65536 bytes, then the rest.
func c13Splits(n, chunks int) [][2]int {
	var sizes []int
	switch chunks {
	case -1:
		sizes = []int{19}
	case -2:
		sizes = []int{n - 19}
	case -3:
		sizes = []int{1, 1, 1, 1, 1, 1, 1}
	case -4:
		for k := 1; k < n; k *= 2 {
			sizes = append(sizes, k)
		}
	case -5:
		sizes = []int{7}
		for k := 7; k+4096 < n; k += 4096 {
			sizes = append(sizes, 4096)
		}
	case -6:
		sizes = []int{300, 65536}
	default:
		if chunks < 1 {
			chunks = 1
		}
		var out [][2]int
		for k := 0; k < chunks; k++ {
			out = append(out, [2]int{n * k / chunks, n * (k + 1) / chunks})
		}
		return out
	}
	var out [][2]int
	pos := 0
	for _, sz := range sizes {
		if sz <= 0 || pos+sz > n {
			break
		}
		out = append(out, [2]int{pos, pos + sz})
		pos += sz
	}
	return append(out, [2]int{pos, n})
}

func c13Make(c c13Case) (*c13Entry, *Violation) {
	key := fmt.Sprintf("%s/%d/%d/%d/%d/%s", c.Body, c.Len, c.Seed, c.Chunks, c.Level, c.Hash)
	if e, ok := c13Cache[key]; ok {
		return e, nil
	}
	dir := filepath.Join(c13Dir(), "make")
	os.RemoveAll(dir)
	os.MkdirAll(dir, 0o755)
	body := c13Body(c.Body, c.Len, c.Seed)
	rsum, dsum := c13DigestsFor(c.Seed, c.Hash)
	e := &c13Entry{body: body}
	var v *Violation
	if pi := guard(func() {
		f, err := cache.CreateLevel(dir, c13NewHash(c.Hash), rsum, dsum, c.Level)
		if err != nil {
			v = viol("create", "CreateLevel failed: %v", err)
			return
		}
		for _, cut := range c13Splits(len(body), c.Chunks) {
			lo, hi := cut[0], cut[1]
			if _, err := f.Write(body[lo:hi]); err != nil {
				v = viol("write", "Write failed: %v", err)
				return
			}
			img, _ := os.ReadFile(f.Name())
			e.live = append(e.live, img)
		}
		if err := f.Close(); err != nil {
			v = viol("close", "Close failed: %v", err)
			return
		}
		e.finished, _ = os.ReadFile(filepath.Join(dir, c13NameFor(rsum, dsum, c.Hash)))
	}); pi != nil {
		return nil, panicViolation("Create/Write/Close", pi)
	}
	if v != nil {
		return nil, v
	}
	if len(e.finished) < 3*c13NewHash(c.Hash).Size() {
		return nil, viol("create", "finished entry has only %d bytes", len(e.finished))
	}
	c13Cache[key] = e
	return e, nil
}

// c13Rewrite: the directory already holds a finished entry for the same key (with another body, longer or shorter)
// when a writer starts over. Whatever the file holds between CreateLevel and Close - the state an interrupted
// rewrite leaves behind - must not open; after Close the entry holds the new body.
func c13Rewrite(c c13Case) *Violation {
	dir := filepath.Join(c13Dir(), "rw")
	os.RemoveAll(dir)
	os.MkdirAll(dir, 0o755)
	defer os.RemoveAll(dir)
	rsum, dsum := c13DigestsFor(c.Seed, c.Hash)
	oldBody := c13Body(c.Body, c.Off, c.Seed+7) // the earlier entry: c.Off bytes
	newBody := c13Body(c.Body, c.Len, c.Seed)
	what := fmt.Sprintf("rewrite of an entry of %d bytes with %d bytes (%s, level %d, %d chunks)", len(oldBody), len(newBody), c.Body, c.Level, c.Chunks)
	probe := func(stage string, wantBody []byte) *Violation {
		var got []byte
		var err, rerr error
		if pi := guard(func() {
			f, e := cache.Open(dir, c13NewHash(c.Hash), rsum, dsum)
			err = e
			if e == nil {
				got, rerr = io.ReadAll(f)
			}
			if f != nil {
				f.Close()
			}
		}); pi != nil {
			return panicViolation("Open ("+what+", "+stage+")", pi)
		}
		if wantBody == nil {
			if err == nil {
				return viol("opened-unfinished", "%s: %s the entry opens (and yields %d bytes) although the writer has not finished", what, stage, len(got))
			}
			return nil
		}
		if err != nil || rerr != nil || !bytes.Equal(got, wantBody) {
			return viol("wrong-bytes", "%s: %s Open gives error %v / %v and %d bytes, want %d", what, stage, err, rerr, len(got), len(wantBody))
		}
		return nil
	}
	var v *Violation
	if pi := guard(func() {
		f, err := cache.CreateLevel(dir, c13NewHash(c.Hash), rsum, dsum, c.Level)
		if err != nil {
			v = viol("create", "CreateLevel failed: %v", err)
			return
		}
		f.Write(oldBody)
		if err := f.Close(); err != nil {
			v = viol("close", "Close failed: %v", err)
			return
		}
		if v = probe("after the first writer closed", oldBody); v != nil {
			return
		}
		g, err := cache.CreateLevel(dir, c13NewHash(c.Hash), rsum, dsum, c.Level)
		if err != nil {
			v = viol("create", "CreateLevel over an existing entry failed: %v", err)
			return
		}
		if v = probe("right after the second writer was created", nil); v != nil {
			return
		}
		for k, cut := range c13Splits(len(newBody), c.Chunks) {
			if _, err := g.Write(newBody[cut[0]:cut[1]]); err != nil {
				v = viol("write", "Write failed: %v", err)
				return
			}
			if v = probe(fmt.Sprintf("after write %d of the second writer", k+1), nil); v != nil {
				return
			}
		}
		if err := g.Close(); err != nil {
			v = viol("close", "Close of the second writer failed: %v", err)
			return
		}
		v = probe("after the second writer closed", newBody)
	}); pi != nil {
		return panicViolation(what, pi)
	}
	return v
}

// hookedHash: a digest that calls a hook on its n-th Sum (the moment cache.Open has just finished reading and is
// about to compare or go on): what another process does to the directory at that moment.
type hookedHash struct {
	hash.Hash
	calls *int
	at    int
	hook  func()
}

func (h hookedHash) Sum(b []byte) []byte {
	*h.calls++
	if *h.calls == h.at {
		h.hook()
	}
	return h.Hash.Sum(b)
}

// c13Swap: while Open is at work on a finished entry, the directory entry is replaced (renamed over by the entry of
// another key, or unlinked and begun anew by another writer). Open either fails or yields the bytes of the entry it
// was asked for - never those of the other file, and never a handle whose reads fail.
func c13Swap(c c13Case) *Violation {
	dir := filepath.Join(c13Dir(), "swap")
	os.RemoveAll(dir)
	os.MkdirAll(dir, 0o755)
	defer os.RemoveAll(dir)
	rsum, dsum := c13DigestsFor(c.Seed, c.Hash)
	orsum, odsum := c13DigestsFor(c.Seed+1000, c.Hash)
	body := c13Body(c.Body, c.Len, c.Seed)
	other := c13Body(c.Body, c.Len+13, c.Seed+5)
	var v *Violation
	if pi := guard(func() {
		for _, e := range []struct {
			r, d []byte
			b    []byte
		}{{rsum, dsum, body}, {orsum, odsum, other}} {
			f, err := cache.CreateLevel(dir, c13NewHash(c.Hash), e.r, e.d, c.Level)
			if err != nil {
				v = viol("create", "CreateLevel failed: %v", err)
				return
			}
			f.Write(e.b)
			if err := f.Close(); err != nil {
				v = viol("close", "Close failed: %v", err)
				return
			}
		}
		path, otherPath := filepath.Join(dir, c13NameFor(rsum, dsum, c.Hash)), filepath.Join(dir, c13NameFor(orsum, odsum, c.Hash))
		calls := 0
		hook := func() {
			if c.Mask == 0 {
				os.Rename(otherPath, path) // the entry of another key takes this entry's name
			} else {
				os.Remove(path) // purged, and a new writer has only got as far as its placeholder header
				os.WriteFile(path, make([]byte, 3*c13NewHash(c.Hash).Size()), 0o644)
			}
		}
		f, err := cache.Open(dir, hookedHash{c13NewHash(c.Hash), &calls, c.Off, hook}, rsum, dsum)
		what := fmt.Sprintf("entry of %d bytes (%s) %s during the %d. digest of Open (Open made %d)", len(body), c.Body, []string{"replaced by the entry of another key", "purged and begun anew"}[c.Mask&1], c.Off, calls)
		if err != nil {
			if f != nil {
				f.Close()
			}
			return
		}
		got, rerr := io.ReadAll(f)
		f.Close()
		if rerr != nil || !bytes.Equal(got, body) {
			v = viol("wrong-bytes", "%s: Open succeeded and reading gave %d bytes, error %v; %d bytes were written under this key", what, len(got), rerr, len(body))
		}
	}); pi != nil {
		return panicViolation("Open while the entry is replaced", pi)
	}
	return v
}

// c13WriteFault: the writer runs in a child process whose file-size limit makes a Write or the final flush fail.
// Whatever the writer reports, an entry that opens must read back exactly the body; and a writer that reported
// success must have left an entry that opens.
func c13WriteFault(c c13Case) *Violation {
	dir := filepath.Join(c13Dir(), "wf")
	os.RemoveAll(dir)
	os.MkdirAll(dir, 0o755)
	defer os.RemoveAll(dir)
	cmd := exec.Command(os.Args[0], "-test.run", "^TestC13Child$")
	cmd.Env = append(os.Environ(), "VERIF_C13_CHILD_DIR="+dir, "VERIF_C13_BODY="+c.Body, fmt.Sprint("VERIF_C13_LEN=", c.Len), fmt.Sprint("VERIF_C13_SEED=", c.Seed),
		fmt.Sprint("VERIF_C13_CHUNKS=", c.Chunks), fmt.Sprint("VERIF_C13_LEVEL=", c.Level), fmt.Sprint("VERIF_C13_LIMIT=", c.Off), fmt.Sprint("VERIF_C13_LIFT=", c.Mask))
	out, _ := cmd.CombinedOutput()
	status := ""
	for _, ln := range strings.Split(string(out), "\n") {
		if strings.HasPrefix(ln, "C13CHILD ") {
			status = strings.TrimPrefix(ln, "C13CHILD ")
		}
	}
	if status == "" || status == "setrlimit-failed" {
		skipCase("write-fault-child-unavailable")
		return nil
	}
	body := c13Body(c.Body, c.Len, c.Seed)
	rsum, dsum := c13Digests(c.Seed)
	var got []byte
	var err, rerr error
	if pi := guard(func() {
		var f *cache.File
		f, err = cache.Open(dir, sha1.New(), rsum, dsum)
		if err == nil {
			got, rerr = io.ReadAll(f)
		}
		if f != nil {
			f.Close()
		}
	}); pi != nil {
		return panicViolation("Open after a write fault", pi)
	}
	what := fmt.Sprintf("body %s/%d (level %d, %d chunks), writer limited to %d bytes reported %q", c.Body, c.Len, c.Level, c.Chunks, c.Off, status)
	if err == nil && (rerr != nil || !bytes.Equal(got, body)) {
		return viol("wrong-bytes", "%s: the entry opens but reading gives %d bytes (err %v), %d were written", what, len(got), rerr, len(body))
	}
	if status == "close-ok" && err != nil {
		return viol("rejected-valid", "%s: Close reported success but the entry does not open: %v", what, err)
	}
	return nil
}

// c13History runs a sequence of operations against one directory and a model (key -> body, or corrupt): an Open
// succeeds iff the model holds an intact body for the key, every read of an open handle yields exactly the body the
// key had when it was opened, whatever other entries were written, opened, read or closed (even twice) in between.
func c13History(c c13Case) *Violation {
	dir := filepath.Join(c13Dir(), "history")
	os.RemoveAll(dir)
	os.MkdirAll(dir, 0o755)
	defer os.RemoveAll(dir)
	type handle struct {
		f    *cache.File
		key  int
		want []byte
		read bool
	}
	model := map[int][]byte{}
	corrupt := map[int]bool{}
	version := map[int]int{}
	var handles []*handle
	openOn := func(key int) bool {
		for _, h := range handles {
			if h.key == key {
				return true
			}
		}
		return false
	}
	var v *Violation
	for i, op := range c.Ops {
		what := fmt.Sprintf("history step %d %+v (steps so far %+v)", i, op, c.Ops[:i])
		rsum, dsum := c13Digests(100 + op.Key)
		pi := guard(func() {
			switch op.Kind {
			case "write":
				if openOn(op.Key) {
					return // rewriting a file that is open for reading is outside this check
				}
				version[op.Key]++
				body := c13Body("random", op.Len, 1000*op.Key+version[op.Key])
				f, err := cache.Create(dir, sha1.New(), rsum, dsum)
				if err != nil {
					v = viol("create", "%s: Create failed: %v", what, err)
					return
				}
				if _, err := f.Write(body); err != nil {
					v = viol("write", "%s: Write failed: %v", what, err)
					return
				}
				if err := f.Close(); err != nil {
					v = viol("close", "%s: Close failed: %v", what, err)
					return
				}
				if op.Twice {
					f.Close() // a second Close (explicit + deferred) may fail but must not disturb anything else
				}
				model[op.Key], corrupt[op.Key] = body, false
			case "corrupt":
				if body, ok := model[op.Key]; ok && !openOn(op.Key) && !corrupt[op.Key] {
					name := filepath.Join(dir, c13Name(rsum, dsum))
					data, err := os.ReadFile(name)
					if err == nil && len(data) > 0 {
						data[(op.Len*7919)%len(data)] ^= 0x20
						os.WriteFile(name, data, 0o644)
						corrupt[op.Key] = true
						_ = body
					}
				}
			case "open":
				if len(handles) >= 4 {
					return
				}
				f, err := cache.Open(dir, sha1.New(), rsum, dsum)
				body, ok := model[op.Key]
				switch {
				case err == nil && (!ok || corrupt[op.Key]):
					v = viol("opened-corrupt", "%s: Open succeeded although the entry is %s", what, map[bool]string{true: "corrupt", false: "absent"}[ok])
				case err != nil && ok && !corrupt[op.Key]:
					v = viol("rejected-valid", "%s: Open of an intact entry failed: %v", what, err)
				case err == nil:
					handles = append(handles, &handle{f: f, key: op.Key, want: body})
				}
			case "read":
				if len(handles) == 0 {
					return
				}
				h := handles[op.Key%len(handles)]
				if h.read {
					return
				}
				h.read = true
				got, err := io.ReadAll(h.f)
				if err != nil || !bytes.Equal(got, h.want) {
					v = viol("wrong-bytes", "%s: the handle of key %d reads %d bytes (err %v), %d were written; first difference at %d", what, h.key, len(got), err, len(h.want), firstDiff(string(got), string(h.want)))
				}
			case "close":
				if len(handles) == 0 {
					return
				}
				k := op.Key % len(handles)
				h := handles[k]
				h.f.Close()
				if op.Twice {
					h.f.Close()
				}
				handles = append(handles[:k], handles[k+1:]...)
			}
		})
		if pi != nil {
			return panicViolation(what, pi)
		}
		if v != nil {
			break
		}
	}
	for _, h := range handles {
		h.f.Close()
	}
	return v
}

func c13Check(c c13Case) *Violation {
	if c.Fault == "history" {
		return c13History(c)
	}
	if c.Fault == "write-limit" {
		return c13WriteFault(c)
	}
	if c.Fault == "rewrite" {
		return c13Rewrite(c)
	}
	if c.Fault == "swap" {
		return c13Swap(c)
	}
	e, v := c13Make(c)
	if v != nil {
		return v
	}
	rsum, dsum := c13DigestsFor(c.Seed, c.Hash)
	openR, openD := rsum, dsum
	image := append([]byte(nil), e.finished...)
	name := c13NameFor(rsum, dsum, c.Hash)
	hdr := 3 * c13NewHash(c.Hash).Size()
	switch c.Fault {
	case "none":
	case "flip":
		if c.Off >= len(image) {
			return nil
		}
		image[c.Off] ^= byte(c.Mask)
	case "prefix":
		if c.Off >= len(image) {
			return nil
		}
		image = image[:c.Off]
	case "tail":
		switch c.Off {
		case 0:
			image = append(image, 0)
		case 1:
			image = append(image, bytes.Repeat([]byte{0xAB}, 32)...)
		case 2:
			image = append(image, image[hdr:]...)
		case 3:
			image = append(image, make([]byte, 4096)...)
		case 4:
			image = append(image, bytes.Repeat([]byte{0x5A}, 8000)...)
		default:
			image = append(image, 0xFF)
		}
	case "rename":
		// the finished entry of (root,data) stored under the name of another pair and opened as that pair
		openR, openD = c13DigestsFor(c.Seed+1000, c.Hash)
		name = c13NameFor(openR, openD, c.Hash)
	case "wrong-root":
		openR, _ = c13DigestsFor(c.Seed+1000, c.Hash)
		name = c13NameFor(openR, openD, c.Hash)
	case "wrong-data":
		_, openD = c13DigestsFor(c.Seed+1000, c.Hash)
		name = c13NameFor(openR, openD, c.Hash)
	case "resplit":
		// the same bytes of the two sums cut at another place: (root[:k], root[k:]+data) names the same file, and is
		// nevertheless another pair of digests - another input or another argument list
		all := append(append([]byte{}, rsum...), dsum...)
		k := c.Off % (len(all) + 1)
		if k == len(rsum) {
			return nil
		}
		openR, openD = append([]byte{}, all[:k]...), append([]byte{}, all[k:]...)
		if c.Mask == 1 && k == 0 {
			openR = nil
		}
		if c.Mask == 1 && k == len(all) {
			openD = nil
		}
		name = c13NameFor(openR, openD, c.Hash)
	case "crash-body":
		// crash before finalisation: placeholder (zero) header + a prefix of the body
		if hdr+c.Off > len(e.finished) {
			return nil
		}
		image = append(make([]byte, hdr), e.finished[hdr:hdr+c.Off]...)
	case "crash-header":
		// torn header write: complete body, the first Off bytes of the final header, zeros after
		if c.Off > hdr {
			return nil
		}
		image = append([]byte(nil), e.finished...)
		for k := c.Off; k < hdr; k++ {
			image[k] = 0
		}
	case "live":
		if c.Off >= len(e.live) {
			return nil
		}
		image = append([]byte(nil), e.live[c.Off]...)
	}
	dir := filepath.Join(c13Dir(), "probe")
	os.MkdirAll(dir, 0o755)
	path := filepath.Join(dir, name)
	if err := os.WriteFile(path, image, 0o644); err != nil {
		panic(err)
	}
	defer os.Remove(path)
	var f *cache.File
	var err error
	var got []byte
	var rerr error
	if pi := guard(func() {
		f, err = cache.Open(dir, c13NewHash(c.Hash), openR, openD)
		if err == nil {
			got, rerr = io.ReadAll(f)
		}
		if f != nil {
			f.Close()
		}
	}); pi != nil {
		return panicViolation(fmt.Sprintf("Open (fault %s at %d)", c.Fault, c.Off), pi)
	}
	same := bytes.Equal(image, e.finished) && bytes.Equal(openR, rsum) && bytes.Equal(openD, dsum)
	what := fmt.Sprintf("body %s/%d (level %d, %d chunks), fault %s off=%d mask=%#x, image of %d bytes (finished file %d)", c.Body, c.Len, c.Level, c.Chunks, c.Fault, c.Off, c.Mask, len(image), len(e.finished))
	if err == nil {
		if !same {
			return viol("opened-corrupt", "%s: Open succeeded on an image that differs from the finished entry", what)
		}
		if rerr != nil || !bytes.Equal(got, e.body) {
			return viol("wrong-bytes", "%s: Open succeeded but reading gave %d bytes (err %v), %d were written", what, len(got), rerr, len(e.body))
		}
		return nil
	}
	if same {
		return viol("rejected-valid", "%s: Open rejected the intact entry: %v", what, err)
	}
	return nil
}

func c13Classify(c c13Case) (bool, []string) {
	labels := []string{"fault:" + c.Fault, "body:" + c.Body}
	if c.Hash != "" {
		labels = append(labels, "hash:"+c.Hash)
	}
	nt := false
	switch c.Fault {
	case "history":
		kinds := map[string]int{}
		for _, op := range c.Ops {
			kinds[op.Kind]++
			if op.Twice && (op.Kind == "write" || op.Kind == "close") {
				labels = append(labels, "double-close")
			}
		}
		// non-trivial: at least two opens and a read (several entries alive at once)
		return kinds["open"] >= 2 && kinds["read"] >= 1, append(labels, fmt.Sprintf("ops=%d", len(c.Ops)))
	case "flip":
		hs := c13NewHash(c.Hash).Size()
		switch {
		case c.Off < hs:
			labels = append(labels, "flip-root-digest")
		case c.Off < 2*hs:
			labels = append(labels, "flip-data-digest")
		case c.Off < 3*hs:
			labels = append(labels, "flip-body-digest")
			nt = true
		default:
			labels = append(labels, "flip-body")
			nt = true
		}
	case "crash-body", "crash-header", "live", "write-limit", "rewrite", "swap":
		nt = true
	case "resplit":
		nt = true
	case "prefix", "tail":
		nt = c.Off >= 3*c13NewHash(c.Hash).Size() || c.Fault == "tail"
	}
	return nt, labels
}

var c13Prop = &Prop[c13Case]{ID: "C13", Check: c13Check, Classify: c13Classify}

func init() { registerReplay(c13Prop) }

func c13GenHistory(t *rapid.T) c13Case {
	n := rapid.IntRange(3, 14).Draw(t, "nops")
	c := c13Case{Fault: "history", Body: "random", Level: -1}
	for i := 0; i < n; i++ {
		kind := rapid.SampledFrom([]string{"write", "write", "open", "open", "read", "read", "close", "corrupt"}).Draw(t, "kind")
		c.Ops = append(c.Ops, c13Op{Kind: kind, Key: rapid.IntRange(0, 2).Draw(t, "key"),
			Len: rapid.SampledFrom([]int{0, 1, 59, 300, 5400, 40000}).Draw(t, "len"), Twice: rapid.IntRange(0, 2).Draw(t, "twice") == 0})
	}
	return c
}

func TestC13(t *testing.T) {
	st := newStats("C13")
	defer st.flush()
	defer os.RemoveAll(c13Dir())
	rapidPart(t, c13Prop, st, "rapid-histories", pick(1500, 20000), c13GenHistory)
	if t.Failed() {
		return
	}
	type bodyCfg struct {
		kind       string
		n          int
		exhaustive bool
	}
	bodies := []bodyCfg{{"empty", 0, true}, {"one", 1, true}, {"text", 200, true}, {"random", 900, true}, {"random", 70 * 1024, false}, {"compressible", 200 * 1024, false}}
	levels := []int{-1}
	seeds := []int{1}
	if thorough() {
		bodies = append(bodies, bodyCfg{"text", 3000, true}, bodyCfg{"random", 8000, true}, bodyCfg{"compressible", 8000, true}, bodyCfg{"random", 300 * 1024, false})
		levels = []int{-1, 1, 9}
		seeds = []int{1, 2}
	}
	// bodies whose compressed length is an exact multiple of a reader buffer size (4096 = bufio default, 32 KiB =
	// deflate window, 64 KiB): readers that stop at a buffer boundary behave differently exactly there
	for _, target := range []int{4096, 8192, 32768, 65536} {
		for n := target - 64; n <= target; n++ {
			ent, v := c13Make(c13Case{Body: "random", Len: n, Seed: 1, Chunks: 1, Level: -1})
			if v == nil && len(ent.finished)-60 == target {
				bodies = append(bodies, bodyCfg{"random", n, false})
				break
			}
		}
	}
	// other digest functions than the SHA-1 of cmd/gts (the header is three digests long, whatever their size): the whole
	// fault list on small bodies, the round trip and the header faults on a large one
	eh := enumPart(t, c13Prop, st, "other-hashes")
	for _, hn := range []string{"md5", "sha256", "sha512"} {
		hs := c13NewHash(hn).Size()
		for _, b := range []bodyCfg{{"empty", 0, true}, {"one", 1, true}, {"text", 200, true}, {"random", 900, true}, {"random", 70 * 1024, false}} {
			for _, chunks := range []int{1, 3, -1} {
				base := c13Case{Body: b.kind, Len: b.n, Seed: 1, Chunks: chunks, Level: -1, Hash: hn}
				ent, v := c13Make(base)
				if v != nil {
					t.Errorf("VIOLATION C13/setup [%s]: %s", v.Kind, v.Msg)
					writeFail("C13", "other-hashes", mustJSON(base), v)
					st.Violations++
					return
				}
				mk := func(fault string, off, mask int) c13Case {
					c := base
					c.Fault, c.Off, c.Mask = fault, off, mask
					return c
				}
				cases := []c13Case{mk("none", 0, 0), mk("rename", 0, 0), mk("wrong-root", 0, 0), mk("wrong-data", 0, 0)}
				for k := 0; k < 6; k++ {
					cases = append(cases, mk("tail", k, 0))
				}
				for k := range ent.live {
					cases = append(cases, mk("live", k, 0))
				}
				if chunks == 1 {
					for j := 0; j <= 3*hs; j++ {
						cases = append(cases, mk("crash-header", j, 0))
					}
					size := len(ent.finished)
					for o := 0; o < size; o++ {
						if b.exhaustive || o < 3*hs+40 || o >= size-8 || o%997 == 0 {
							cases = append(cases, mk("flip", o, 0x01), mk("prefix", o, 0))
						}
					}
				}
				for _, c := range cases {
					if !eh.try(c) {
						return
					}
				}
			}
		}
	}
	eh.done(false)
	e := enumPart(t, c13Prop, st, "fault-enumeration")
	exhaustiveAll := true
	for _, b := range bodies {
		for _, level := range levels {
			for _, seed := range seeds {
				for _, chunks := range []int{1, 3, -1, -2, -3, -4, -5, -6} {
					base := c13Case{Body: b.kind, Len: b.n, Seed: seed, Chunks: chunks, Level: level}
					if chunks < 0 {
						// uneven write patterns: what was written must come back (and the unfinished images must not open);
						// the byte-level fault sweep is done for the even patterns
						if level != levels[0] || seed != seeds[0] {
							continue
						}
						ent, v := c13Make(base)
						if v != nil {
							t.Errorf("VIOLATION C13/setup [%s]: %s", v.Kind, v.Msg)
							writeFail("C13", "fault-enumeration", mustJSON(base), v)
							st.Violations++
							return
						}
						none := base
						none.Fault = "none"
						if !e.try(none) {
							return
						}
						for k := range ent.live {
							live := base
							live.Fault, live.Off = "live", k
							if !e.try(live) {
								return
							}
						}
						continue
					}
					ent, v := c13Make(base)
					if v != nil {
						t.Errorf("VIOLATION C13/setup [%s]: %s", v.Kind, v.Msg)
						writeFail("C13", "fault-enumeration", mustJSON(base), v)
						st.Violations++
						return
					}
					size := len(ent.finished)
					try := func(c c13Case) bool { return e.try(c) }
					mk := func(fault string, off, mask int) c13Case {
						c := base
						c.Fault, c.Off, c.Mask = fault, off, mask
						return c
					}
					if !try(mk("none", 0, 0)) || !try(mk("rename", 0, 0)) || !try(mk("wrong-root", 0, 0)) || !try(mk("wrong-data", 0, 0)) {
						return
					}
					if level == levels[0] {
						for k := 0; k <= 64; k++ {
							if !try(mk("resplit", k, 0)) || ((k == 0 || k == 40) && !try(mk("resplit", k, 1))) {
								return
							}
						}
					}
					for k := 0; k < 6; k++ {
						if !try(mk("tail", k, 0)) {
							return
						}
					}
					for k := range ent.live {
						if !try(mk("live", k, 0)) {
							return
						}
					}
					for j := 0; j <= 60; j++ {
						if !try(mk("crash-header", j, 0)) {
							return
						}
					}
					// a writer that starts over while a finished entry of the same key (shorter, equal, longer) exists
					if level == levels[0] && seed == seeds[0] {
						for _, oldLen := range []int{0, 1, b.n / 2, b.n, b.n + 1, 2*b.n + 100, 70000} {
							if !try(mk("rewrite", oldLen, 0)) {
								return
							}
						}
					}
					// the directory entry is replaced while Open is at work (at each of its digest computations)
					if level == levels[0] && seed == seeds[0] {
						for k := 1; k <= 6; k++ {
							if !try(mk("swap", k, 0)) || !try(mk("swap", k, 1)) {
								return
							}
						}
					}
					// write faults: the file-size limit of the writer process ends somewhere in the placeholder, in the
					// body, or just short of the finished size (so that only the final flush inside Close fails)
					if chunks == 1 && level == levels[0] && seed == seeds[0] {
						for _, lim := range []int{0, 1, 59, 60, 61, 60 + (size-60)/2, size - 20, size - 5, size - 3, size - 2, size - 1, size, size + 10} {
							if lim >= 0 && !try(mk("write-limit", lim, 0)) {
								return
							}
						}
						// the same limit while the entry is created only: it is lifted before the body is written
						for _, lim := range []int{0, 1, 20, 30, 59, 60} {
							if !try(mk("write-limit", lim, 1)) {
								return
							}
						}
					}
					// offsets: all of them for small files, header + spread sample for large ones
					var offs []int
					if b.exhaustive {
						for o := 0; o < size; o++ {
							offs = append(offs, o)
						}
					} else {
						exhaustiveAll = false
						for o := 0; o < 200 && o < size; o++ {
							offs = append(offs, o)
						}
						step := (size - 200) / pick(600, 2000)
						if step < 1 {
							step = 1
						}
						for o := 200; o < size; o += step {
							offs = append(offs, o)
						}
						for o := size - 64; o < size; o++ {
							if o >= 200 {
								offs = append(offs, o)
							}
						}
					}
					for _, o := range offs {
						for _, m := range []int{0x01, 0x80, 0xFF} {
							if !try(mk("flip", o, m)) {
								return
							}
						}
						if !try(mk("prefix", o, 0)) {
							return
						}
						if o <= size-60 && !try(mk("crash-body", o, 0)) {
							return
						}
					}
				}
			}
		}
	}
	e.done(exhaustiveAll)
	if !exhaustiveAll {
		st.note("large bodies (70 KiB, 200 KiB) are sampled (header-dense, evenly spread, tail-dense); small bodies are enumerated completely")
	}
}
