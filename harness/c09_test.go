package harness

// C09 — Minimize and Invert partition the sequence exactly.
// Oracle: coverage bitmap computed from the generated segments, independent of gts's sort/merge.

import (
	"fmt"
	"reflect"
	"testing"

	"github.com/go-gts/gts"
	"pgregory.net/rapid"
)

type c09Region struct {
	Segs [][2]int `json:"segs"`           // each {head, tail}; tail<head = reverse orientation
	Bare bool     `json:"bare"`           // single segment passed as a bare Segment instead of Regions{Segment}
	Nest int      `json:"nest,omitempty"` // 1: the segments after the first form an inner Regions (a compound inside a compound); 2: the whole is wrapped once more
}

type c09Case struct {
	N       int         `json:"n"`
	Regions []c09Region `json:"regions"`
	Perm    []int       `json:"perm"` // permutation applied for the invariance clause
	Flip    []bool      `json:"flip"` // per region: reverse orientation of all its segments in the permuted copy
}

func (c c09Case) build(order []int, flip []bool) gts.Regions {
	rr := gts.Regions{}
	for k := range c.Regions {
		idx := k
		if order != nil {
			idx = order[k]
		}
		r := c.Regions[idx]
		segs := make([]gts.Segment, len(r.Segs))
		for i, s := range r.Segs {
			segs[i] = gts.Segment{s[0], s[1]}
			if flip != nil && flip[idx] {
				segs[i] = gts.Segment{s[1], s[0]}
			}
		}
		if flip != nil && flip[idx] {
			for i, j := 0, len(segs)-1; i < j; i, j = i+1, j-1 {
				segs[i], segs[j] = segs[j], segs[i]
			}
		}
		if len(segs) == 1 && r.Bare {
			rr = append(rr, segs[0])
			continue
		}
		sub := make(gts.Regions, len(segs))
		for i, s := range segs {
			sub[i] = s
		}
		if r.Nest > 0 && len(segs) >= 2 {
			// a compound inside a compound, as the region of join(a,complement(join(b,c))) is
			inner := make(gts.Regions, len(segs)-1)
			for i, s := range segs[1:] {
				inner[i] = s
			}
			sub = gts.Regions{segs[0], inner}
			if r.Nest > 1 {
				sub = gts.Regions{sub}
			}
		}
		rr = append(rr, sub)
	}
	return rr
}

func c09Cover(c c09Case) []bool {
	cover := make([]bool, c.N)
	for _, r := range c.Regions {
		for _, s := range r.Segs {
			lo, hi := s[0], s[1]
			if hi < lo {
				lo, hi = hi, lo
			}
			for p := lo; p < hi; p++ {
				cover[p] = true
			}
		}
	}
	return cover
}

func c09Flatten(r gts.Region) []gts.Segment {
	switch v := r.(type) {
	case gts.Segment:
		return []gts.Segment{v}
	case gts.Regions:
		out := []gts.Segment{}
		for _, x := range v {
			out = append(out, c09Flatten(x)...)
		}
		return out
	}
	return nil
}

// c09Shift moves every coordinate of a region (nested collections included) by off.
func c09Shift(r gts.Region, off int) gts.Region {
	switch v := r.(type) {
	case gts.Segment:
		return gts.Segment{v[0] + off, v[1] + off}
	case gts.Regions:
		out := make(gts.Regions, len(v))
		for i, x := range v {
			out[i] = c09Shift(x, off)
		}
		return out
	}
	panic(fmt.Sprintf("harness: unknown region type %T", r))
}

func c09Check(c c09Case) *Violation {
	cover := c09Cover(c)
	var min, min2 []gts.Segment
	var lin, circ []gts.Region
	if pi := guard(func() { min = gts.Minimize(c.build(nil, nil)) }); pi != nil {
		return panicViolation("Minimize", pi)
	}
	// the result is judged after further calls on other collections: it must not change under them
	{
		first := fmt.Sprint(min)
		others := []gts.Region{gts.Regions{gts.Segment{0, minInt(1, c.N)}}, gts.Regions{gts.Segment{c.N, c.N / 2}, gts.Segment{0, c.N / 3}}}
		if pi := guard(func() {
			for _, o := range others {
				gts.Minimize(o)
				gts.InvertLinear(o, c.N)
				gts.InvertCircular(o, c.N)
			}
		}); pi != nil {
			return panicViolation("Minimize/Invert of another collection", pi)
		}
		if now := fmt.Sprint(min); now != first {
			return viol("result-later", "Minimize returned %s, which reads %s after other collections were minimized and inverted", first, now)
		}
	}
	// --- Minimize: forward, strictly increasing, disjoint, non-abutting, exact cover
	got := make([]int, c.N)
	for i, s := range min {
		if s[1] < s[0] {
			return viol("minimize-orientation", "Minimize output segment %v is not forward", s)
		}
		if s[0] < 0 || s[1] > c.N {
			return viol("minimize-bounds", "Minimize output segment %v outside [0,%d]", s, c.N)
		}
		if i > 0 && !(min[i-1][1] < s[0]) {
			return viol("minimize-order", "Minimize output %v: segments %v and %v overlap, abut or are out of order", min, min[i-1], s)
		}
		for p := s[0]; p < s[1]; p++ {
			got[p]++
		}
	}
	for p := 0; p < c.N; p++ {
		if cover[p] && got[p] != 1 {
			return viol("minimize-cover", "position %d covered by the input is covered %d times by Minimize output %v", p, got[p], min)
		}
		if !cover[p] && got[p] != 0 {
			return viol("minimize-cover", "position %d not covered by the input is covered by Minimize output %v", p, min)
		}
	}
	// --- permutation / orientation invariance
	if pi := guard(func() { min2 = gts.Minimize(c.build(c.Perm, c.Flip)) }); pi != nil {
		return panicViolation("Minimize(permuted)", pi)
	}
	if !reflect.DeepEqual(min, min2) {
		return viol("minimize-invariance", "Minimize differs after permuting/re-orienting the input: %v vs %v", min, min2)
	}
	// --- InvertLinear
	if pi := guard(func() { lin = gts.InvertLinear(c.build(nil, nil), c.N) }); pi != nil {
		return panicViolation("InvertLinear", pi)
	}
	inv := make([]int, c.N)
	for _, r := range lin {
		s, ok := r.(gts.Segment)
		if !ok {
			return viol("invert-shape", "InvertLinear returned a non-segment %v", r)
		}
		if !(s[0] < s[1]) {
			return viol("invert-empty", "InvertLinear returned an empty or backward segment %v (all: %v)", s, lin)
		}
		if s[0] < 0 || s[1] > c.N {
			return viol("invert-bounds", "InvertLinear segment %v outside [0,%d]", s, c.N)
		}
		for p := s[0]; p < s[1]; p++ {
			inv[p]++
		}
	}
	for p := 0; p < c.N; p++ {
		if got[p]+inv[p] != 1 {
			return viol("invert-partition", "position %d covered %d times by Minimize %v and %d times by InvertLinear %v", p, got[p], min, inv[p], lin)
		}
	}
	// --- translation: the same collection far from the origin (coordinates around 2^31, 2^32, 2^53, 2^62) minimizes to
	// the same segments moved by the same amount, and its linear inversion is the moved inversion plus the stretch in
	// front of it
	for _, off := range []int{1 << 31, 1<<32 + 7, 1 << 53, 1<<62 - c.N/2 - 1, 1<<62 + 1} {
		var shMin []gts.Segment
		var shLin []gts.Region
		if pi := guard(func() {
			shMin = gts.Minimize(c09Shift(c.build(nil, nil), off))
			shLin = gts.InvertLinear(c09Shift(c.build(nil, nil), off), c.N+off)
		}); pi != nil {
			return panicViolation(fmt.Sprintf("Minimize/InvertLinear of the collection moved by %d", off), pi)
		}
		wantMin := make([]gts.Segment, len(min))
		for i, sg := range min {
			wantMin[i] = gts.Segment{sg[0] + off, sg[1] + off}
		}
		if fmt.Sprint(shMin) != fmt.Sprint(wantMin) {
			return viol("translation", "Minimize of the collection moved by %d gives %v, want %v (unmoved: %v)", off, shMin, wantMin, min)
		}
		// a zero-length segment at position 0 lies on the edge of [0,n) and inside [0,n+off): it separates pieces only
		// in the moved collection, so the inversions are not compared then
		siteAtZero := false
		for _, r := range c.Regions {
			for _, sg := range r.Segs {
				if sg[0] == 0 && sg[1] == 0 {
					siteAtZero = true
				}
			}
		}
		if siteAtZero {
			continue
		}
		var wantLin []gts.Segment
		lead := gts.Segment{0, off}
		for i, r := range lin {
			sg := r.(gts.Segment)
			if i == 0 && sg[0] == 0 {
				lead[1] = sg[1] + off
				continue
			}
			wantLin = append(wantLin, gts.Segment{sg[0] + off, sg[1] + off})
		}
		wantLin = append([]gts.Segment{lead}, wantLin...)
		var gotLin []gts.Segment
		for _, r := range shLin {
			if sg, ok := r.(gts.Segment); ok {
				gotLin = append(gotLin, sg)
			}
		}
		if fmt.Sprint(gotLin) != fmt.Sprint(wantLin) {
			return viol("translation", "InvertLinear of the collection moved by %d within [0,%d) gives %v, want %v (unmoved: %v)", off, c.N+off, shLin, wantLin, lin)
		}
	}
	// --- InvertCircular: same residues; end pieces merged across the origin
	if pi := guard(func() { circ = gts.InvertCircular(c.build(nil, nil), c.N) }); pi != nil {
		return panicViolation("InvertCircular", pi)
	}
	cinv := make([]int, c.N)
	for _, r := range circ {
		for _, s := range c09Flatten(r) {
			if !(s[0] < s[1]) || s[0] < 0 || s[1] > c.N {
				return viol("circular-shape", "InvertCircular piece %v is empty, backward or outside [0,%d] (all: %v)", s, c.N, circ)
			}
			for p := s[0]; p < s[1]; p++ {
				cinv[p]++
			}
		}
	}
	for p := 0; p < c.N; p++ {
		if cinv[p] != inv[p] {
			return viol("circular-cover", "position %d covered %d times by InvertCircular %v but %d times by InvertLinear %v", p, cinv[p], circ, inv[p], lin)
		}
	}
	// A zero-length input segment lying exactly on the origin (0 or n) is a site *at* the origin: the
	// statement does not say whether it separates the end pieces, so the merge clause is not asserted then.
	siteAtOrigin := false
	for _, r := range c.Regions {
		for _, s := range r.Segs {
			if s[0] == s[1] && (s[0] == 0 || s[0] == c.N) {
				siteAtOrigin = true
			}
		}
	}
	if siteAtOrigin {
		return nil
	}
	if c.N > 0 && inv[0] == 1 && inv[c.N-1] == 1 && len(lin) >= 2 {
		// both end pieces are non-empty: they must form one region reading across the origin
		found := false
		for _, r := range circ {
			segs := c09Flatten(r)
			if len(segs) == 2 && segs[0][1] == c.N && segs[1][0] == 0 {
				found = true
			}
		}
		if !found {
			return viol("circular-merge", "end pieces not merged across the origin: linear %v circular %v", lin, circ)
		}
		if len(circ) != len(lin)-1 {
			return viol("circular-merge", "expected %d circular pieces, got %v", len(lin)-1, circ)
		}
	} else if len(circ) != len(lin) {
		return viol("circular-merge", "pieces merged although an end piece is empty: linear %v circular %v", lin, circ)
	}
	return nil
}

func c09Classify(c c09Case) (bool, []string) {
	labels := []string{}
	type iv struct{ lo, hi int }
	ivs := []iv{}
	zero, rev := false, false
	for _, r := range c.Regions {
		for _, s := range r.Segs {
			lo, hi := s[0], s[1]
			if hi < lo {
				lo, hi = hi, lo
				rev = true
			}
			if lo == hi {
				zero = true
			}
			ivs = append(ivs, iv{lo, hi})
		}
	}
	overlap, abut, nest, touch0, touchN := false, false, false, false, false
	for i, a := range ivs {
		if a.lo == 0 {
			touch0 = true
		}
		if a.hi == c.N {
			touchN = true
		}
		for j, b := range ivs {
			if i == j {
				continue
			}
			if a.lo < b.hi && b.lo < a.hi {
				overlap = true
			}
			if a.hi == b.lo {
				abut = true
			}
			if a.lo <= b.lo && b.hi <= a.hi && (a.lo != b.lo || a.hi != b.hi) {
				nest = true
			}
		}
	}
	for k, v := range map[string]bool{"overlap": overlap, "abut": abut, "nest": nest, "touch0": touch0, "touchN": touchN, "zero-length": zero, "reverse": rev} {
		if v {
			labels = append(labels, k)
		}
	}
	labels = append(labels, fmt.Sprintf("regions=%d", len(c.Regions)))
	return overlap || abut || nest, labels
}

var c09Prop = &Prop[c09Case]{ID: "C09", Check: c09Check, Classify: c09Classify}

func init() { registerReplay(c09Prop) }

func c09Gen(t *rapid.T) c09Case {
	n := drawLen(t, 1, 24, "n")
	nr := drawCount(t, 1, 6, 20, "nregions")
	c := c09Case{N: n}
	coord := rapid.OneOf(rapid.IntRange(0, n), rapid.SampledFrom([]int{0, n, n / 2, 1, n - 1}))
	for i := 0; i < nr; i++ {
		ns := rapid.IntRange(1, 4).Draw(t, "nsegs")
		r := c09Region{Bare: rapid.Bool().Draw(t, "bare"), Nest: rapid.SampledFrom([]int{0, 0, 0, 1, 2}).Draw(t, "nest")}
		for j := 0; j < ns; j++ {
			a := coord.Draw(t, "a")
			var b int
			if rapid.IntRange(0, 3).Draw(t, "short") == 0 {
				b = a + rapid.IntRange(-2, 2).Draw(t, "d")
				if b < 0 {
					b = 0
				}
				if b > n {
					b = n
				}
			} else {
				b = coord.Draw(t, "b")
			}
			r.Segs = append(r.Segs, [2]int{a, b})
		}
		c.Regions = append(c.Regions, r)
	}
	c.Perm = rapid.Permutation(seqInts(nr)).Draw(t, "perm")
	c.Flip = rapid.SliceOfN(rapid.Bool(), nr, nr).Draw(t, "flip")
	return c
}

// c09GenMany: collections of 40..300 regions (sizes that cross any block, window or threshold an implementation may
// have): many short segments and a few long ones that cover dozens of them.
func c09GenMany(t *rapid.T) c09Case {
	n := rapid.IntRange(200, 3000).Draw(t, "n")
	nr := rapid.SampledFrom([]int{40, 63, 64, 65, 66, 100, 127, 128, 129, 130, 200, 255, 256, 257, 300}).Draw(t, "nregions")
	c := c09Case{N: n}
	for i := 0; i < nr; i++ {
		r := c09Region{Bare: rapid.Bool().Draw(t, "bare")}
		ns := rapid.SampledFrom([]int{1, 1, 1, 2, 3}).Draw(t, "nsegs")
		for j := 0; j < ns; j++ {
			a := rapid.IntRange(0, n).Draw(t, "a")
			l := rapid.IntRange(0, 8).Draw(t, "len")
			if rapid.IntRange(0, 24).Draw(t, "long") == 0 {
				l = rapid.IntRange(n/10, n/2).Draw(t, "longlen")
			}
			b := minInt(n, a+l)
			if rapid.IntRange(0, 3).Draw(t, "rev") == 0 {
				a, b = b, a
			}
			r.Segs = append(r.Segs, [2]int{a, b})
		}
		c.Regions = append(c.Regions, r)
	}
	c.Perm = rapid.Permutation(seqInts(nr)).Draw(t, "perm")
	c.Flip = rapid.SliceOfN(rapid.Bool(), nr, nr).Draw(t, "flip")
	return c
}

func seqInts(n int) []int {
	out := make([]int, n)
	for i := range out {
		out[i] = i
	}
	return out
}

func TestC09(t *testing.T) {
	st := newStats("C09")
	defer st.flush()
	// one long segment with k short ones inside it (a gene and its exons), k around every power of two up to 256, the
	// long one first, last or in the middle of the list, forward or backward
	emany := enumPart(t, c09Prop, st, "gene-and-exons")
	for _, k := range []int{1, 2, 3, 11, 12, 13, 15, 16, 17, 31, 32, 33, 62, 63, 64, 65, 66, 70, 127, 128, 129, 130, 255, 256, 257, 300} {
		for variant := 0; variant < 6; variant++ {
			n := 120 + 15*k
			gene := c09Region{Segs: [][2]int{{100, n - 20}}, Bare: variant%2 == 0}
			if variant >= 3 {
				gene.Segs[0] = [2]int{n - 20, 100}
			}
			var rr []c09Region
			for i := 0; i < k; i++ {
				rr = append(rr, c09Region{Segs: [][2]int{{100 + 15*i + 3, 100 + 15*i + 12}}, Bare: i%3 == 0})
			}
			at := []int{0, k, k / 2}[variant%3]
			rr = append(rr[:at], append([]c09Region{gene}, rr[at:]...)...)
			c := c09Case{N: n, Regions: rr, Perm: seqInts(len(rr)), Flip: make([]bool, len(rr))}
			for i := range c.Perm {
				c.Perm[i] = len(rr) - 1 - i
				c.Flip[i] = i%2 == 0
			}
			if !emany.try(c) {
				return
			}
		}
	}
	emany.done(true)
	rapidPart(t, c09Prop, st, "rapid-many-segments", pick(600, 8000), c09GenMany)
	if t.Failed() {
		return
	}
	rapidPart(t, c09Prop, st, "rapid", pick(40000, 400000), c09Gen)
	if t.Failed() {
		return
	}
	rapidLargePart(t, c09Prop, st, pick(1500, 20000), c09Gen)
	if t.Failed() {
		return
	}
	// exhaustive: every set of up to 3 segments (both orientations, zero-length included) over n<=4 (quick)
	// or n<=5 (thorough), each segment its own region, plus all of them packed into one region.
	maxN := pick(4, 5)
	e := enumPart(t, c09Prop, st, "exhaustive-small")
	for n := 1; n <= maxN; n++ {
		var segs [][2]int
		for a := 0; a <= n; a++ {
			for b := 0; b <= n; b++ {
				segs = append(segs, [2]int{a, b})
			}
		}
		for i := 0; i < len(segs); i++ {
			if !e.try(c09Case{N: n, Regions: []c09Region{{Segs: [][2]int{segs[i]}, Bare: true}}, Perm: []int{0}, Flip: []bool{true}}) {
				return
			}
			for j := 0; j < len(segs); j++ {
				if !e.try(c09Case{N: n, Regions: []c09Region{{Segs: [][2]int{segs[i]}}, {Segs: [][2]int{segs[j]}, Bare: true}}, Perm: []int{1, 0}, Flip: []bool{false, true}}) {
					return
				}
				if !e.try(c09Case{N: n, Regions: []c09Region{{Segs: [][2]int{segs[i], segs[j]}}}, Perm: []int{0}, Flip: []bool{true}}) {
					return
				}
				if n > 4 && !thorough() {
					continue
				}
				for k := j; k < len(segs); k++ {
					if !e.try(c09Case{N: n, Regions: []c09Region{{Segs: [][2]int{segs[i]}}, {Segs: [][2]int{segs[j], segs[k]}}}, Perm: []int{1, 0}, Flip: []bool{true, false}}) {
						return
					}
				}
			}
		}
	}
	e.done(true)
}
